// Package zsimrt is the runtime of the deterministic simulator. It is copied
// into the instrumented scratch copy of compose-go (never into /repo) and is
// std-only. With no active Run every entry point is a pass-through to the real
// behaviour (real map order, real os, no yields).
package zsimrt

import (
	"fmt"
	"reflect"
	"runtime"
	"sort"
	"strings"
	"sync"
	"sync/atomic"
)

// ---------------------------------------------------------------- PRNG

type rng struct{ s [4]uint64 }

func splitmix(x *uint64) uint64 {
	*x += 0x9e3779b97f4a7c15
	z := *x
	z = (z ^ (z >> 30)) * 0xbf58476d1ce4e5b9
	z = (z ^ (z >> 27)) * 0x94d049bb133111eb
	return z ^ (z >> 31)
}

// Mix derives the seed of run i of a property from VERIF_SEED.
func Mix(seed uint64, label string, i uint64) uint64 {
	h := uint64(14695981039346656037)
	for j := 0; j < len(label); j++ {
		h ^= uint64(label[j])
		h *= 1099511628211
	}
	x := seed ^ h
	a := splitmix(&x)
	x = a ^ (i * 0x9e3779b97f4a7c15)
	return splitmix(&x)
}

func newRng(seed uint64) rng {
	var r rng
	x := seed
	for i := range r.s {
		r.s[i] = splitmix(&x)
	}
	return r
}

func rotl(x uint64, k uint) uint64 { return (x << k) | (x >> (64 - k)) }

func (r *rng) next() uint64 {
	res := rotl(r.s[1]*5, 7) * 9
	t := r.s[1] << 17
	r.s[2] ^= r.s[0]
	r.s[3] ^= r.s[1]
	r.s[1] ^= r.s[2]
	r.s[0] ^= r.s[3]
	r.s[2] ^= t
	r.s[3] = rotl(r.s[3], 45)
	return res
}

// ---------------------------------------------------------------- Run

// Draw is one recorded decision.
type Draw struct {
	L string `json:"l"`
	N int    `json:"n"`
	V int    `json:"v"`
}

// Budget exceeded: raised as a panic value through the code under test.
type BudgetExceeded struct {
	What  string
	Count uint64
	Where string
}

func (b BudgetExceeded) Error() string {
	return fmt.Sprintf("simulated step budget exceeded: %s=%d in %s", b.What, b.Count, b.Where)
}

// Order policies of the map-order seam.
const (
	OrdSorted = iota
	OrdReverse
	OrdRotate
	OrdShuffle
	nOrd
)

// Run is one simulated execution: one choice source, one set of policies,
// counters, an optional simulated OS and an optional task scheduler.
type Run struct {
	mu       sync.Mutex
	Seed     uint64
	r        rng
	replay   []Draw
	rpos     int
	Drift    int
	Record   bool
	Log      []Draw
	digest   uint64
	NDraws   uint64
	sitePol  map[string]int
	siteSeen map[string]int // policy each site actually got in the current schedule
	schedNo  int
	orderSum uint64
	DefPol   int // -1: draw per site (swarm); else fixed policy for all sites
	Pinned   map[string][]int // site -> explicit permutation of the sorted keys
	// PinKeys pins, at every site whose id starts with PinSitePrefix, the visit order of any
	// string-keyed map whose sorted key set (joined by ",") is listed: new[i] = sorted[perm[i]]
	PinKeys       map[string][]int
	PinSitePrefix string
	PinHits       int
	PinOnce  map[string]bool
	NonCanon map[string]int // site -> executions with >=2 keys and a non-canonical order
	MultiKey map[string]int // site -> executions with >=2 keys
	Steps    uint64
	Depth, MaxDepth, MaxDepthSeen int
	KeysCalls uint64
	MaxSteps uint64
	MaxKeys  uint64
	FS       *FS
	Sched    *Sched
	PkgLog   []PkgAccess
	Probes   map[string]int
}

var active atomic.Pointer[Run]

// NewRun creates a run; Activate makes it current for the process.
func NewRun(seed uint64) *Run {
	return &Run{Seed: seed, r: newRng(seed), digest: 14695981039346656037, sitePol: map[string]int{}, siteSeen: map[string]int{}, DefPol: -1,
		NonCanon: map[string]int{}, MultiKey: map[string]int{}, Probes: map[string]int{},
		MaxSteps: 5_000_000, MaxKeys: 2_000_000, MaxDepth: 50_000}
}

// NewReplay creates a run served from a recorded draw log.
func NewReplay(seed uint64, log []Draw) *Run {
	r := NewRun(seed)
	r.replay = log
	if r.replay == nil {
		r.replay = []Draw{}
	}
	return r
}

func Activate(r *Run) { active.Store(r) }
func Deactivate()     { active.Store(nil) }
func Current() *Run   { return active.Load() }

func (r *Run) hash(s string, a, b int) {
	h := r.digest
	for i := 0; i < len(s); i++ {
		h ^= uint64(s[i])
		h *= 1099511628211
	}
	h ^= uint64(a)
	h *= 1099511628211
	h ^= uint64(b) + 0x9e37
	h *= 1099511628211
	r.digest = h
}

// Note mixes an event into the trace digest without drawing.
func (r *Run) Note(s string, a int) {
	r.mu.Lock()
	r.hash(s, a, -1)
	r.mu.Unlock()
}

func (r *Run) Digest() uint64 {
	r.mu.Lock()
	defer r.mu.Unlock()
	return r.digest ^ (r.orderSum * 0x94d049bb133111eb)
}

// Draw returns a value in [0,n). n <= 1 returns 0 without consuming anything.
func (r *Run) Draw(label string, n int) int {
	if n <= 1 {
		return 0
	}
	r.mu.Lock()
	defer r.mu.Unlock()
	var v int
	if r.replay != nil {
		if r.rpos < len(r.replay) {
			d := r.replay[r.rpos]
			r.rpos++
			if d.L != label || d.N != n {
				r.Drift++
			}
			v = d.V % n
			if v < 0 {
				v = 0
			}
		} else {
			v = 0 // beyond the recorded log: the boring choice
		}
	} else {
		v = int(r.r.next() % uint64(n))
	}
	r.NDraws++
	r.hash(label, n, v)
	if r.Record {
		r.Log = append(r.Log, Draw{label, n, v})
	}
	return v
}

// Chance draws true with probability num/den.
func (r *Run) Chance(label string, num, den int) bool { return r.Draw(label, den) < num }

// Probe counts that a rare condition was reached.
func Probe(name string) {
	if r := active.Load(); r != nil {
		r.mu.Lock()
		r.Probes[name]++
		r.mu.Unlock()
	}
}

// ---------------------------------------------------------------- R6 step counter

// Step is inserted at every function entry of the library, followed by `defer zsimrt.Leave()`.
func Step() {
	r := active.Load()
	if r == nil {
		return
	}
	r.Steps++
	r.Depth++
	if r.Depth > r.MaxDepthSeen {
		r.MaxDepthSeen = r.Depth
	}
	if r.Steps > r.MaxSteps {
		panic(BudgetExceeded{"function-entries", r.Steps, callerName(2)})
	}
	if r.Depth > r.MaxDepth {
		panic(BudgetExceeded{"recursion-depth", uint64(r.Depth), recursingFunc()})
	}
}

// Leave undoes the depth accounting of Step (also while a panic unwinds).
func Leave() {
	if r := active.Load(); r != nil && r.Depth > 0 {
		r.Depth--
	}
}

// recursingFunc names the library function that occurs most often among the innermost 256 frames.
func recursingFunc() string {
	var pcs [256]uintptr
	n := runtime.Callers(2, pcs[:])
	fr := runtime.CallersFrames(pcs[:n])
	count := map[string]int{}
	for {
		f, more := fr.Next()
		if i := strings.Index(f.Function, "compose-go/v2/"); i >= 0 && !strings.Contains(f.Function, "/zsimrt.") {
			count[f.Function[i+len("compose-go/v2/"):]]++
		}
		if !more {
			break
		}
	}
	best, bn := "?", 0
	for k, v := range count {
		if v > bn || (v == bn && k < best) {
			best, bn = k, v
		}
	}
	return best
}

func callerName(skip int) string {
	pc, _, _, ok := runtime.Caller(skip)
	if !ok {
		return "?"
	}
	n := runtime.FuncForPC(pc).Name()
	if i := strings.Index(n, "compose-go/v2/"); i >= 0 {
		n = n[i+len("compose-go/v2/"):]
	}
	return n
}

// ---------------------------------------------------------------- R1 map order

func ZeroK[M ~map[K]V, K comparable, V any](m M) (k K) { return }
func ZeroV[M ~map[K]V, K comparable, V any](m M) (v V) { return }

func lessAny(a, b any) bool {
	switch x := a.(type) {
	case string:
		if y, ok := b.(string); ok {
			return x < y
		}
	case int:
		if y, ok := b.(int); ok {
			return x < y
		}
	}
	va, vb := reflect.ValueOf(a), reflect.ValueOf(b)
	if va.IsValid() && vb.IsValid() && va.Kind() == vb.Kind() {
		switch va.Kind() {
		case reflect.String:
			return va.String() < vb.String()
		case reflect.Int, reflect.Int8, reflect.Int16, reflect.Int32, reflect.Int64:
			return va.Int() < vb.Int()
		case reflect.Uint, reflect.Uint8, reflect.Uint16, reflect.Uint32, reflect.Uint64:
			return va.Uint() < vb.Uint()
		}
	}
	return fmt.Sprintf("%T:%v", a, a) < fmt.Sprintf("%T:%v", b, b)
}

// Keys returns the keys of m in the order decided by the active run (real map
// order when none is active).
func Keys[M ~map[K]V, K comparable, V any](site string, m M) []K {
	ks := make([]K, 0, len(m))
	for k := range m {
		ks = append(ks, k)
	}
	r := active.Load()
	if r == nil {
		return ks
	}
	if r.Sched != nil {
		r.Sched.beforeDraw(site)
	}
	r.KeysCalls++
	if r.KeysCalls > r.MaxKeys {
		panic(BudgetExceeded{"map-ranges", r.KeysCalls, site})
	}
	if len(ks) < 2 {
		return ks
	}
	var keyHash uint64 = 14695981039346656037
	if sk, ok := any(ks).([]string); ok {
		sort.Strings(sk)
		for _, k := range sk {
			keyHash = (keyHash ^ fnv64(k)) * 1099511628211
		}
		if r.PinKeys != nil && strings.HasPrefix(site, r.PinSitePrefix) {
			if perm, ok := r.PinKeys[strings.Join(sk, ",")]; ok && len(perm) == len(sk) {
				applyPerm(perm, func(i, j int) { ks[i], ks[j] = ks[j], ks[i] })
				r.mu.Lock()
				r.MultiKey[site]++
				r.NonCanon[site]++
				r.PinHits++
				r.orderSum += (fnv64(site) ^ keyHash*31 ^ 0x7777) * 0x9e3779b97f4a7c15
				r.mu.Unlock()
				return ks
			}
		}
	} else {
		sort.Slice(ks, func(i, j int) bool { return lessAny(ks[i], ks[j]) })
		for _, k := range ks {
			keyHash = (keyHash ^ fnv64(fmt.Sprint(k))) * 1099511628211
		}
	}
	r.order(site, len(ks), keyHash, func(i, j int) { ks[i], ks[j] = ks[j], ks[i] })
	return ks
}

// order permutes n canonically sorted elements in place through swap.
//
// The decision is a pure function of (run seed, schedule number, site, key set):
// it does not consume the sequential choice stream, so it cannot depend on the
// order in which un-instrumented dependencies (yaml, mapstructure: their own
// map iteration is random) happen to call back into the library.
func (r *Run) order(site string, n int, keyHash uint64, swap func(i, j int)) {
	r.mu.Lock()
	r.MultiKey[site]++
	pol, fixed := r.sitePol[site]
	sched := r.schedNo
	def := r.DefPol
	r.mu.Unlock()
	x := r.Seed ^ (uint64(sched) * 0x9e3779b97f4a7c15)
	siteHash := fnv64(site)
	if !fixed {
		if def >= 0 {
			pol = def
		} else {
			// swarm: per schedule, some sites canonical, some perturbed
			y := x ^ siteHash
			switch v := splitmix(&y) % 8; {
			case v < 3:
				pol = OrdSorted
			case v < 4:
				pol = OrdReverse
			case v < 6:
				pol = OrdRotate
			default:
				pol = OrdShuffle
			}
		}
	}
	z := x ^ siteHash ^ (keyHash * 0xbf58476d1ce4e5b9)
	nontrivial := false
	switch pol {
	case OrdSorted:
	case OrdReverse:
		for i, j := 0, n-1; i < j; i, j = i+1, j-1 {
			swap(i, j)
		}
		nontrivial = true
	case OrdRotate:
		k := int(splitmix(&z) % uint64(n))
		if k != 0 {
			rev := func(a, b int) {
				for a < b {
					swap(a, b)
					a++
					b--
				}
			}
			rev(0, k-1)
			rev(k, n-1)
			rev(0, n-1)
			nontrivial = true
		}
	case OrdShuffle:
		for i := 0; i < n-1; i++ {
			j := i + int(splitmix(&z)%uint64(n-i))
			if j != i {
				swap(i, j)
				nontrivial = true
			}
		}
	}
	r.mu.Lock()
	if _, ok := r.siteSeen[site]; !ok {
		r.siteSeen[site] = pol
	}
	if nontrivial {
		r.NonCanon[site]++
	}
	// commutative: the trace digest must not depend on the order of independent decisions
	r.orderSum += (siteHash ^ keyHash*31 ^ uint64(pol)*0x51ed) * 0x9e3779b97f4a7c15
	r.mu.Unlock()
}

func fnv64(s string) uint64 {
	h := uint64(14695981039346656037)
	for i := 0; i < len(s); i++ {
		h ^= uint64(s[i])
		h *= 1099511628211
	}
	return h
}

// applyPerm rearranges so that new[i] = old[perm[i]].
func applyPerm(perm []int, swap func(i, j int)) {
	n := len(perm)
	cur := make([]int, n) // cur[i]: which original element sits at i
	pos := make([]int, n) // pos[e]: where original element e sits
	for i := range cur {
		cur[i], pos[i] = i, i
	}
	for i := 0; i < n; i++ {
		want := perm[i]
		j := pos[want]
		if j != i {
			swap(i, j)
			ci, cj := cur[i], cur[j]
			cur[i], cur[j] = cj, ci
			pos[cj], pos[ci] = i, j
		}
	}
}

// SetPolicy fixes the order policy of every site (or -1 for swarm).
func (r *Run) SetPolicy(p int) { r.DefPol = p }

// SetSitePolicy fixes the policy of one site.
func (r *Run) SetSitePolicy(site string, p int) {
	r.mu.Lock()
	r.sitePol[site] = p
	r.mu.Unlock()
}

// ResetPolicies forgets the per-site choices (new schedule within the same run).
func (r *Run) ResetPolicies() {
	r.mu.Lock()
	r.sitePol = map[string]int{}
	r.siteSeen = map[string]int{}
	r.schedNo++
	r.mu.Unlock()
}

// SitePolicies returns a copy of the per-site decisions taken so far.
func (r *Run) SitePolicies() map[string]int {
	r.mu.Lock()
	defer r.mu.Unlock()
	m := make(map[string]int, len(r.siteSeen))
	for k, v := range r.siteSeen {
		m[k] = v
	}
	return m
}

// SetSchedule selects the schedule number map-order decisions are derived from.
func (r *Run) SetSchedule(n int) {
	r.mu.Lock()
	r.schedNo = n
	r.sitePol = map[string]int{}
	r.siteSeen = map[string]int{}
	r.mu.Unlock()
}

// Schedule returns the current schedule number.
func (r *Run) Schedule() int {
	r.mu.Lock()
	defer r.mu.Unlock()
	return r.schedNo
}

// ResetCounters zeroes the per-load budgets (several loads in one run).
func (r *Run) ResetCounters() {
	r.Steps = 0
	r.KeysCalls = 0
	r.Depth = 0
}

// ---------------------------------------------------------------- R5 package variable log

type PkgAccess struct {
	Site  string
	Var   string
	Write bool
	Task  int
}

func PkgVar(site, name string, write bool) {
	r := active.Load()
	if r == nil {
		return
	}
	r.mu.Lock()
	r.PkgLog = append(r.PkgLog, PkgAccess{site, name, write, 0})
	r.mu.Unlock()
}
