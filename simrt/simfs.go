package zsimrt

import (
	"errors"
	"io"
	"io/fs"
	"os"
	"path"
	"path/filepath"
	"runtime"
	"sort"
	"strconv"
	"strings"
	"syscall"
	"time"
)

// ---------------------------------------------------------------- S3: simulated OS

type node struct {
	dir     bool
	data    []byte
	link    string // symlink target ("" = none)
}

// IOEvent is one call of the library into the (simulated) OS.
type IOEvent struct {
	Seq   int    `json:"seq"`
	Op    string `json:"op"`
	Path  string `json:"path"`
	Site  string `json:"site"`
	Res   string `json:"res"`
	Fault string `json:"fault,omitempty"`
}

// Fault is one planned fault.
type Fault struct {
	Kind   string `json:"kind"`             // enoent eacces eio eisdir eio-read short torn flip swap nohome nocwd
	Path   string `json:"path,omitempty"`   // target path ("" with AtSeq: whatever path event AtSeq touches)
	AtSeq  int    `json:"at_seq,omitempty"` // fire at this I/O event number (1-based); 0 = first access of Path
	Sticky bool   `json:"sticky"`
	K      int    `json:"k,omitempty"`      // byte offset for short/torn/eio-read
	Alt    string `json:"alt,omitempty"`    // other version for torn/swap
	Flips  []int  `json:"flips,omitempty"`  // offset,byte pairs
	Fired  int    `json:"fired"`
	Ops    string `json:"ops,omitempty"`    // restrict to ops (comma list), "" = all path ops
	armed  bool
}

// FS is an in-memory file tree plus process environment.
type FS struct {
	nodes   map[string]*node
	Cwd     string
	Home    string
	Env     []string
	Stdin   []byte
	Events  []IOEvent
	Faults  []*Fault
	MaxIO   int
	reads   map[string]int
	NoLog   bool
}

func NewFS() *FS {
	f := &FS{nodes: map[string]*node{"/": {dir: true}}, Cwd: "/", Home: "/home/user", MaxIO: 10000, reads: map[string]int{}}
	return f
}

func (f *FS) MkdirAll(p string) {
	p = path.Clean(p)
	for p != "/" && p != "." {
		if n, ok := f.nodes[p]; !ok || !n.dir {
			f.nodes[p] = &node{dir: true}
		}
		p = path.Dir(p)
	}
}

func (f *FS) WriteFile(p string, data []byte) {
	p = path.Clean(p)
	f.MkdirAll(path.Dir(p))
	f.nodes[p] = &node{data: append([]byte(nil), data...)}
}

func (f *FS) Symlink(target, p string) {
	p = path.Clean(p)
	f.MkdirAll(path.Dir(p))
	f.nodes[p] = &node{link: target}
}

func (f *FS) Remove(p string) {
	p = path.Clean(p)
	for k := range f.nodes {
		if k == p || strings.HasPrefix(k, p+"/") {
			delete(f.nodes, k)
		}
	}
}

// Files lists regular files (sorted).
func (f *FS) Files() []string {
	var out []string
	for k, n := range f.nodes {
		if !n.dir && n.link == "" {
			out = append(out, k)
		}
	}
	sort.Strings(out)
	return out
}

func (f *FS) ReadRaw(p string) ([]byte, bool) {
	n, ok := f.nodes[path.Clean(p)]
	if !ok || n.dir {
		return nil, false
	}
	return n.data, true
}

func fsOf() *FS {
	r := active.Load()
	if r == nil {
		return nil
	}
	return r.FS
}

func (f *FS) abs(p string) string {
	if p == "" {
		return f.Cwd
	}
	if !strings.HasPrefix(p, "/") {
		p = f.Cwd + "/" + p
	}
	return path.Clean(p)
}

// resolve follows symlinks (bounded) and returns the final path and node.
func (f *FS) resolve(p string, followLast bool) (string, *node, error) {
	p = f.abs(p)
	for hops := 0; hops < 40; hops++ {
		// walk components so that a file used as a directory gives ENOTDIR
		parts := strings.Split(strings.TrimPrefix(p, "/"), "/")
		cur := "/"
		var n *node = f.nodes["/"]
		redirected := false
		for i, c := range parts {
			if c == "" {
				continue
			}
			if !n.dir {
				return p, nil, syscall.ENOTDIR
			}
			next := path.Join(cur, c)
			nn, ok := f.nodes[next]
			if !ok {
				return p, nil, syscall.ENOENT
			}
			last := i == len(parts)-1
			if nn.link != "" && (!last || followLast) {
				t := nn.link
				if !strings.HasPrefix(t, "/") {
					t = path.Join(cur, t)
				}
				p = path.Join(append([]string{t}, parts[i+1:]...)...)
				redirected = true
				break
			}
			cur, n = next, nn
		}
		if !redirected {
			return cur, n, nil
		}
	}
	return p, nil, syscall.ELOOP
}

func callSite() string {
	// 0 callSite, 1 event, 2 zsimrt.X, 3 library caller
	var pcs [8]uintptr
	n := runtime.Callers(3, pcs[:])
	fr := runtime.CallersFrames(pcs[:n])
	for {
		f, more := fr.Next()
		if !strings.Contains(f.Function, "/zsimrt.") {
			file := f.File
			if i := strings.Index(file, "/compose-go/"); i >= 0 {
				file = file[i+len("/compose-go/"):]
			} else if j := strings.LastIndex(file, "/"); j >= 0 {
				if k := strings.LastIndex(file[:j], "/"); k >= 0 {
					file = file[k+1:]
				}
			}
			return file + ":" + strconv.Itoa(f.Line)
		}
		if !more {
			return "?"
		}
	}
}

// event records the call, enforces the I/O budget and returns the fault (if
// any) that fires on it.
func (f *FS) event(op, p string) (*IOEvent, *Fault) {
	r := active.Load()
	seq := len(f.Events) + 1
	if seq > f.MaxIO {
		panic(BudgetExceeded{"io-events", uint64(seq), op + " " + p})
	}
	site := ""
	if !f.NoLog {
		site = callSite()
	}
	f.Events = append(f.Events, IOEvent{Seq: seq, Op: op, Path: p, Site: site})
	ev := &f.Events[len(f.Events)-1]
	if r != nil {
		r.Note(op+" "+p, seq)
	}
	for _, ft := range f.Faults {
		if ft.Ops != "" && !strings.Contains(","+ft.Ops+",", ","+op+",") {
			continue
		}
		match := false
		switch ft.Kind {
		case "nohome":
			match = op == "home"
		case "nocwd":
			match = op == "getwd" || op == "abs-rel"
		default:
			if op == "home" || op == "getwd" || op == "environ" || op == "abs" || op == "abs-rel" {
				continue
			}
			exact := ft.Path == p
			under := strings.HasPrefix(p, ft.Path+"/") && (ft.Kind == "enoent" || ft.Kind == "eacces" || ft.Kind == "eio")
			switch {
			case ft.Sticky && ft.AtSeq > 0: // from this event on ("vanished between two accesses and stays gone")
				if ft.Path == "" && seq == ft.AtSeq {
					ft.Path = p
					exact = true
				}
				match = seq >= ft.AtSeq && ft.Path != "" && (exact || under)
			case ft.Sticky:
				match = exact || under
			case ft.AtSeq > 0: // this event only
				match = seq == ft.AtSeq && (ft.Path == "" || exact)
				if match && ft.Path == "" {
					ft.Path = p
				}
			default: // first access only
				match = (exact || under) && !ft.armed
			}
		}
		if match {
			if !ft.Sticky && ft.armed {
				continue // transient fault already delivered
			}
			ft.armed = true
			ft.Fired++
			ev.Fault = ft.Kind
			return ev, ft
		}
	}
	return ev, nil
}

func pathErr(op, p string, e error) error { return &fs.PathError{Op: op, Path: p, Err: e} }

func faultErr(ft *Fault) error {
	switch ft.Kind {
	case "enoent", "dangling":
		return syscall.ENOENT
	case "eacces":
		return syscall.EACCES
	case "eio":
		return syscall.EIO
	case "eisdir":
		return syscall.EISDIR
	}
	return nil
}

// content applies content faults to the bytes read from p.
func (f *FS) content(p string, data []byte, ft *Fault) ([]byte, error) {
	if ft == nil {
		return data, nil
	}
	switch ft.Kind {
	case "short":
		k := ft.K
		if k > len(data) {
			k = len(data)
		}
		return append([]byte(nil), data[:k]...), nil
	case "torn":
		alt := []byte(ft.Alt)
		k := ft.K
		if k > len(alt) {
			k = len(alt)
		}
		out := append([]byte(nil), alt[:k]...)
		if k < len(data) {
			out = append(out, data[k:]...)
		}
		return out, nil
	case "flip":
		out := append([]byte(nil), data...)
		for i := 0; i+1 < len(ft.Flips); i += 2 {
			if len(out) > 0 {
				out[ft.Flips[i]%len(out)] = byte(ft.Flips[i+1])
			}
		}
		return out, nil
	case "swap":
		f.reads[p]++
		if f.reads[p] >= 2 {
			return []byte(ft.Alt), nil
		}
		ft.Fired-- // only counts once the second read happened
		ft.armed = false
		return data, nil
	case "eio-read":
		k := ft.K
		if k > len(data) {
			k = len(data)
		}
		return data[:k], syscall.EIO
	}
	return data, nil
}

func isContentFault(k string) bool {
	switch k {
	case "short", "torn", "flip", "swap", "eio-read":
		return true
	}
	return false
}

// ---- the functions R4 redirects to

func ReadFile(name string) ([]byte, error) {
	f := fsOf()
	if f == nil {
		return os.ReadFile(name)
	}
	p := f.abs(name)
	ev, ft := f.event("readfile", p)
	if ft != nil && !isContentFault(ft.Kind) {
		ev.Res = ft.Kind
		if ft.Kind == "eisdir" {
			// like the real os.ReadFile on a directory: the open succeeds, the read fails, and what is
			// returned besides the error is an empty but non-nil slice
			return []byte{}, pathErr("read", name, syscall.EISDIR)
		}
		return nil, pathErr("open", name, faultErr(ft))
	}
	_, n, err := f.resolve(name, true)
	if err != nil {
		ev.Res = err.Error()
		return nil, pathErr("open", name, err)
	}
	if n.dir {
		ev.Res = "eisdir"
		return []byte{}, pathErr("read", name, syscall.EISDIR)
	}
	data, cerr := f.content(p, n.data, ft)
	if cerr != nil {
		// a read error in mid-file: os.ReadFile hands back what it had read so far together with the error
		ev.Res = "eio-read"
		return append([]byte{}, data...), pathErr("read", name, cerr)
	}
	ev.Res = "ok:" + strconv.Itoa(len(data))
	return append([]byte(nil), data...), nil
}

// File is the simulated (or wrapped real) *os.File.
type File struct {
	real *os.File
	name string
	data []byte
	off  int
	dir  bool
	err  error // delivered once data is exhausted
}

func Open(name string) (*File, error) {
	f := fsOf()
	if f == nil {
		rf, err := os.Open(name)
		if err != nil {
			return nil, err
		}
		return &File{real: rf}, nil
	}
	p := f.abs(name)
	ev, ft := f.event("open", p)
	if ft != nil && !isContentFault(ft.Kind) {
		ev.Res = ft.Kind
		if ft.Kind == "eisdir" {
			ev.Res = "ok:dir"
			return &File{name: name, dir: true}, nil
		}
		return nil, pathErr("open", name, faultErr(ft))
	}
	_, n, err := f.resolve(name, true)
	if err != nil {
		ev.Res = err.Error()
		return nil, pathErr("open", name, err)
	}
	if n.dir {
		ev.Res = "ok:dir"
		return &File{name: name, dir: true}, nil
	}
	data, cerr := f.content(p, n.data, ft)
	ev.Res = "ok:" + strconv.Itoa(len(data))
	return &File{name: name, data: append([]byte(nil), data...), err: cerr}, nil
}

func (f *File) Read(b []byte) (int, error) {
	if f.real != nil {
		return f.real.Read(b)
	}
	if f.dir {
		return 0, pathErr("read", f.name, syscall.EISDIR)
	}
	if f.off >= len(f.data) {
		if f.err != nil {
			return 0, pathErr("read", f.name, f.err)
		}
		return 0, io.EOF
	}
	n := copy(b, f.data[f.off:])
	f.off += n
	return n, nil
}

func (f *File) Close() error {
	if f.real != nil {
		return f.real.Close()
	}
	return nil
}

func (f *File) Name() string {
	if f.real != nil {
		return f.real.Name()
	}
	return f.name
}

func (f *File) Stat() (fs.FileInfo, error) {
	if f.real != nil {
		return f.real.Stat()
	}
	return fileInfo{name: path.Base(f.name), size: int64(len(f.data)), dir: f.dir}, nil
}

type fileInfo struct {
	name string
	size int64
	dir  bool
	link bool
}

func (i fileInfo) Name() string { return i.name }
func (i fileInfo) Size() int64  { return i.size }
func (i fileInfo) Mode() fs.FileMode {
	if i.dir {
		return fs.ModeDir | 0o755
	}
	if i.link {
		return fs.ModeSymlink | 0o777
	}
	return 0o644
}
func (i fileInfo) ModTime() time.Time { return time.Unix(1700000000, 0) }
func (i fileInfo) IsDir() bool        { return i.dir }
func (i fileInfo) Sys() any           { return nil }

func statImpl(op, name string, follow bool) (fs.FileInfo, error) {
	f := fsOf()
	p := f.abs(name)
	ev, ft := f.event(op, p)
	if ft != nil && ft.Kind == "dangling" && !follow {
		// the path is a symbolic link whose target is gone: lstat sees the link itself
		ev.Res = "ok:link"
		return fileInfo{name: path.Base(p), link: true}, nil
	}
	if ft != nil && !isContentFault(ft.Kind) {
		ev.Res = ft.Kind
		if ft.Kind == "eisdir" {
			return fileInfo{name: path.Base(p), dir: true}, nil
		}
		return nil, pathErr(op, name, faultErr(ft))
	}
	if ft != nil {
		ft.Fired-- // content faults do not apply to stat
		ft.armed = ft.Sticky && ft.armed
		if !ft.Sticky {
			ft.armed = false
		}
		ev.Fault = ""
	}
	_, n, err := f.resolve(name, follow)
	if err != nil {
		ev.Res = err.Error()
		return nil, pathErr(op, name, err)
	}
	ev.Res = "ok"
	return fileInfo{name: path.Base(p), size: int64(len(n.data)), dir: n.dir, link: n.link != ""}, nil
}

func Stat(name string) (fs.FileInfo, error) {
	if fsOf() == nil {
		return os.Stat(name)
	}
	return statImpl("stat", name, true)
}

func Lstat(name string) (fs.FileInfo, error) {
	if fsOf() == nil {
		return os.Lstat(name)
	}
	return statImpl("lstat", name, false)
}

func Getwd() (string, error) {
	f := fsOf()
	if f == nil {
		return os.Getwd()
	}
	ev, ft := f.event("getwd", "")
	if ft != nil {
		ev.Res = "enoent"
		return "", &os.SyscallError{Syscall: "getwd", Err: syscall.ENOENT}
	}
	ev.Res = "ok"
	return f.Cwd, nil
}

func UserHomeDir() (string, error) {
	f := fsOf()
	if f == nil {
		return os.UserHomeDir()
	}
	ev, ft := f.event("home", "")
	if ft != nil {
		ev.Res = "unset"
		return "", errors.New("$HOME is not defined")
	}
	ev.Res = "ok"
	return f.Home, nil
}

func Environ() []string {
	f := fsOf()
	if f == nil {
		return os.Environ()
	}
	f.event("environ", "")
	return append([]string(nil), f.Env...)
}

func LookupEnv(k string) (string, bool) {
	f := fsOf()
	if f == nil {
		return os.LookupEnv(k)
	}
	for i := len(f.Env) - 1; i >= 0; i-- {
		if strings.HasPrefix(f.Env[i], k+"=") {
			return f.Env[i][len(k)+1:], true
		}
	}
	return "", false
}

func Getenv(k string) string { v, _ := LookupEnv(k); return v }

func Setenv(k, v string) error {
	f := fsOf()
	if f == nil {
		return os.Setenv(k, v)
	}
	f.Env = append(f.Env, k+"="+v)
	return nil
}

// Stdin replaces os.Stdin (an io.Reader is all the library needs).
var Stdin io.Reader = stdinReader{}

type stdinReader struct{}

func (stdinReader) Read(b []byte) (int, error) {
	f := fsOf()
	if f == nil {
		return os.Stdin.Read(b)
	}
	if len(f.Stdin) == 0 {
		return 0, io.EOF
	}
	n := copy(b, f.Stdin)
	f.Stdin = f.Stdin[n:]
	return n, nil
}

func Abs(p string) (string, error) {
	f := fsOf()
	if f == nil {
		return filepath.Abs(p)
	}
	if strings.HasPrefix(p, "/") {
		return path.Clean(p), nil
	}
	ev, ft := f.event("abs-rel", p)
	if ft != nil {
		ev.Res = "enoent"
		return "", &os.SyscallError{Syscall: "getwd", Err: syscall.ENOENT}
	}
	ev.Res = "ok"
	return f.abs(p), nil
}

func EvalSymlinks(p string) (string, error) {
	f := fsOf()
	if f == nil {
		return filepath.EvalSymlinks(p)
	}
	ev, ft := f.event("evalsymlinks", f.abs(p))
	if ft != nil && !isContentFault(ft.Kind) {
		ev.Res = ft.Kind
		return "", pathErr("lstat", p, faultErr(ft))
	}
	if ft != nil {
		ft.Fired--
		if !ft.Sticky {
			ft.armed = false
		}
		ev.Fault = ""
	}
	rp, _, err := f.resolve(p, true)
	if err != nil {
		ev.Res = err.Error()
		return "", pathErr("lstat", p, err)
	}
	ev.Res = "ok"
	if !strings.HasPrefix(p, "/") {
		// filepath.EvalSymlinks keeps relative paths relative
		if rel, e := filepath.Rel(f.Cwd, rp); e == nil {
			return rel, nil
		}
	}
	return rp, nil
}
