package zsimrt

import (
	"runtime"
	"sort"
	"strconv"
	"sync"
)

// ---------------------------------------------------------------- S2: tasks and yields

// Tok is handed from a parent to the goroutine it spawns.
type Tok struct {
	s    *Sched
	ID   string
	Site string
}

// Parked is a task waiting for the scheduler.
type Parked struct {
	Task string
	Site string
	Kind string // "yield", "start", "callback"
	Info any
	ch   chan any
}

// Sched is the cooperative task scheduler. It is driven by the harness from
// inside a testing/synctest bubble: WaitFn must be synctest.Wait.
type Sched struct {
	mu       sync.Mutex
	run      *Run
	WaitFn   func()
	tasks    map[int64]*task
	parked   []*Parked
	current  string
	done     bool
	Steps    int
	MaxSteps int
	Trace    []string // released (task@site) sequence, when Record
	Record   bool
	Unknown  int // yields from goroutines that were never Started
	MaxPar   int // max number of simultaneously parked tasks (>=2 => a real choice existed)
	Choices  int // decisions with >= 2 candidates
	// Hold, when set, filters the tasks the harness is willing to release at this point
	Hold func([]*Parked) []*Parked
	// strategy
	Strategy int
	prio     map[string]int
	changeAt map[int]bool
	victim   string
}

type task struct {
	id     string
	spawns int
}

const (
	StratUniform = iota
	StratPCT
	StratStarve
	StratLowest // always the lowest task id: the boring schedule (value 0 everywhere)
)

func goid() int64 {
	var buf [64]byte
	n := runtime.Stack(buf[:], false)
	// "goroutine 123 ["
	s := buf[10:n]
	var id int64
	for _, c := range s {
		if c < '0' || c > '9' {
			break
		}
		id = id*10 + int64(c-'0')
	}
	return id
}

// NewSched attaches a scheduler to the run.
func NewSched(r *Run, wait func()) *Sched {
	s := &Sched{run: r, WaitFn: wait, tasks: map[int64]*task{}, MaxSteps: 100000, prio: map[string]int{}, changeAt: map[int]bool{}}
	r.Sched = s
	return s
}

func sched() *Sched {
	r := active.Load()
	if r == nil {
		return nil
	}
	return r.Sched
}

func (s *Sched) me() *task {
	g := goid()
	s.mu.Lock()
	t := s.tasks[g]
	s.mu.Unlock()
	return t
}

func (s *Sched) park(kind, site string, info any) any {
	t := s.me()
	id := "?"
	if t != nil {
		id = t.id
	}
	p := &Parked{Task: id, Site: site, Kind: kind, Info: info, ch: make(chan any)}
	s.mu.Lock()
	if t == nil {
		s.Unknown++
	}
	s.parked = append(s.parked, p)
	s.mu.Unlock()
	return <-p.ch
}

// Yield parks the calling task until the scheduler releases it.
func Yield(site string) {
	s := sched()
	if s == nil {
		return
	}
	s.park("yield", site, nil)
}

// beforeDraw makes a map-order decision a yield point unless the caller is the
// task that was released last (so draws are only ever made by one task).
func (s *Sched) beforeDraw(site string) {
	t := s.me()
	s.mu.Lock()
	cur := s.current
	s.mu.Unlock()
	if t != nil && t.id == cur {
		return
	}
	s.park("yield", site, nil)
}

// Spawn is called by the parent right before a go statement / errgroup.Go.
func Spawn(site string) Tok {
	s := sched()
	if s == nil {
		return Tok{}
	}
	t := s.me()
	s.mu.Lock()
	defer s.mu.Unlock()
	if t == nil {
		s.Unknown++
		return Tok{s: s, ID: "?." + site, Site: site}
	}
	t.spawns++
	return Tok{s: s, ID: t.id + "." + strconv.Itoa(t.spawns), Site: site}
}

// Start binds the new goroutine to its task id and parks.
func Start(tok Tok) {
	if tok.s == nil {
		return
	}
	s := tok.s
	g := goid()
	s.mu.Lock()
	s.tasks[g] = &task{id: tok.ID}
	s.mu.Unlock()
	s.park("start", tok.Site, nil)
}

// Exit unbinds the goroutine (goroutine ids are reused by the runtime).
func Exit() {
	s := sched()
	if s == nil {
		return
	}
	g := goid()
	s.mu.Lock()
	delete(s.tasks, g)
	s.mu.Unlock()
}

// StartRoot binds the calling goroutine as task id and parks it.
func (s *Sched) StartRoot(id string) {
	g := goid()
	s.mu.Lock()
	s.tasks[g] = &task{id: id}
	s.mu.Unlock()
	s.park("start", "root", nil)
}

// Callback parks the calling task as a pending harness callback; the value the
// scheduler releases it with is returned.
func (s *Sched) Callback(site string, info any) any { return s.park("callback", site, info) }

// MarkDone tells the scheduler the operation under test has returned.
func (s *Sched) MarkDone() {
	g := goid()
	s.mu.Lock()
	s.done = true
	delete(s.tasks, g)
	s.mu.Unlock()
}

// Quiesce waits until every task is parked or durably blocked and returns the
// parked tasks in canonical order, and whether the operation has returned.
func (s *Sched) Quiesce() ([]*Parked, bool) {
	s.WaitFn()
	s.mu.Lock()
	defer s.mu.Unlock()
	ps := append([]*Parked(nil), s.parked...)
	sort.SliceStable(ps, func(i, j int) bool {
		if ps[i].Task != ps[j].Task {
			return ps[i].Task < ps[j].Task
		}
		return ps[i].Site < ps[j].Site
	})
	if len(ps) > s.MaxPar {
		s.MaxPar = len(ps)
	}
	return ps, s.done
}

// SetStrategy draws the parameters of the schedule strategy.
func (s *Sched) SetStrategy(st int, horizon int) {
	s.Strategy = st
	if st == StratPCT {
		d := s.run.Draw("pct-d", 4)
		for i := 0; i < d; i++ {
			s.changeAt[s.run.Draw("pct-at", horizon)] = true
		}
	}
}

// Pick chooses one of the parked tasks according to the strategy.
func (s *Sched) Pick(ps []*Parked) *Parked {
	if len(ps) == 0 {
		return nil
	}
	if len(ps) >= 2 {
		s.Choices++
	}
	var p *Parked
	switch s.Strategy {
	case StratLowest:
		p = ps[0]
	case StratPCT:
		// unseen tasks get a random priority; highest wins; at change points the
		// winner's priority drops below everything
		best := -1
		for i, q := range ps {
			key := q.Task
			if q.Kind == "callback" {
				key += "/cb"
			}
			if _, ok := s.prio[key]; !ok {
				s.prio[key] = 1000 + s.run.Draw("pct-prio", 1000000)
			}
			if best < 0 || s.prio[key] > s.prio[keyOf(ps[best])] {
				best = i
			}
		}
		p = ps[best]
		if s.changeAt[s.Steps] {
			s.prio[keyOf(p)] = 1000 - s.Steps
		}
	case StratStarve:
		if s.victim == "" {
			s.victim = keyOf(ps[s.run.Draw("victim", len(ps))])
		}
		var cand []*Parked
		for _, q := range ps {
			if keyOf(q) != s.victim {
				cand = append(cand, q)
			}
		}
		if len(cand) == 0 {
			cand = ps
			s.victim = "" // starved as long as possible; choose a new victim next time
		}
		p = cand[s.run.Draw("pick", len(cand))]
	default:
		p = ps[s.run.Draw("pick", len(ps))]
	}
	return p
}

func keyOf(q *Parked) string {
	if q.Kind == "callback" {
		return q.Task + "/cb"
	}
	return q.Task
}

// Release lets p run with the given payload (callbacks receive it).
func (s *Sched) Release(p *Parked, payload any) {
	s.mu.Lock()
	for i, q := range s.parked {
		if q == p {
			s.parked = append(s.parked[:i], s.parked[i+1:]...)
			break
		}
	}
	s.current = p.Task
	s.Steps++
	if s.Record {
		s.Trace = append(s.Trace, p.Task+"@"+p.Site)
	}
	s.mu.Unlock()
	s.run.Note(p.Task+"@"+p.Site, s.Steps)
	p.ch <- payload
}

// ---------------------------------------------------------------- R3 select support

// SelectOrder returns the order in which the ready cases of a select are
// polled, or nil when no scheduler is active (plain blocking select).
func SelectOrder(site string, n int) []int {
	s := sched()
	if s == nil {
		return nil
	}
	ord := make([]int, n)
	for i := range ord {
		ord[i] = i
	}
	for i := 0; i < n-1; i++ {
		j := i + s.run.Draw("sel:"+site, n-i)
		ord[i], ord[j] = ord[j], ord[i]
	}
	return ord
}

func RecvZero[T any](ch <-chan T) (v T, ok bool) { return }

func TryRecv[T any](ch <-chan T) (v T, ok bool, got bool) {
	select {
	case v, ok = <-ch:
		return v, ok, true
	default:
		return
	}
}
