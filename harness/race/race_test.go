// Package race is engine (b) of C19: groups of concurrent loads, and the
// library's parallel operations on real threads, in a -race build of the
// PRISTINE (un-instrumented) tree. The Go race detector is the oracle for the
// data-race clause; "equals the solo result" is the second oracle. The harness
// adds no synchronisation between the start barrier and the final join.
package race

import (
	"context"
	"crypto/sha256"
	"encoding/json"
	"errors"
	"fmt"
	"io"
	"os"
	"os/exec"
	"path/filepath"
	"runtime"
	"sort"
	"strconv"
	"strings"
	"sync"
	"sync/atomic"
	"testing"
	"time"

	"github.com/compose-spec/compose-go/v2/cli"
	"github.com/compose-spec/compose-go/v2/graph"
	interp "github.com/compose-spec/compose-go/v2/interpolation"
	"github.com/compose-spec/compose-go/v2/template"
	"github.com/compose-spec/compose-go/v2/loader"
	"github.com/compose-spec/compose-go/v2/types"
	"github.com/distribution/reference"
	godigest "github.com/opencontainers/go-digest"
	"github.com/sirupsen/logrus"
)

type LoadOpts struct {
	SkipValidation         bool     `json:"skip_validation,omitempty"`
	SkipInterpolation      bool     `json:"skip_interpolation,omitempty"`
	SkipNormalization      bool     `json:"skip_normalization,omitempty"`
	NoResolvePaths         bool     `json:"no_resolve_paths,omitempty"`
	ConvertWindowsPaths    bool     `json:"convert_windows_paths,omitempty"`
	SkipConsistencyCheck   bool     `json:"skip_consistency_check,omitempty"`
	SkipExtends            bool     `json:"skip_extends,omitempty"`
	SkipInclude            bool     `json:"skip_include,omitempty"`
	SkipResolveEnvironment bool     `json:"skip_resolve_environment,omitempty"`
	SkipDefaultValues      bool     `json:"skip_default_values,omitempty"`
	DiscardEnvFiles        bool     `json:"discard_env_files,omitempty"`
	Profiles               []string `json:"profiles,omitempty"`
	ProjectName            string   `json:"project_name,omitempty"`
	NameImperative         bool     `json:"name_imperative,omitempty"`
}

type Layout struct {
	Files      map[string]string `json:"files"`
	Dirs       []string          `json:"dirs,omitempty"`
	WorkingDir string            `json:"working_dir"`
	Main       []string          `json:"main"`
	Env        map[string]string `json:"env"`
	Opts       LoadOpts          `json:"opts"`
	Features   []string          `json:"features,omitempty"`
	root       string
	name       string
}

type Violation struct {
	Property string          `json:"property"`
	Clause   string          `json:"clause"`
	Key      string          `json:"key"`
	Detail   string          `json:"detail,omitempty"`
	Engine   string          `json:"engine"`
	RunSeed  uint64          `json:"run_seed"`
	RunIndex int             `json:"run_index"`
	Scenario json.RawMessage `json:"scenario,omitempty"`
}

type Result struct {
	Engine     string         `json:"engine"`
	Seed       uint64         `json:"seed"`
	Runs       int            `json:"runs"`
	Nontrivial []string       `json:"nontrivial"`
	Counters   map[string]int `json:"counters"`
	Samples    []any          `json:"samples"`
	Violations []Violation    `json:"violations"`
	WallS      float64        `json:"wall_s"`
	Max        map[string]int `json:"max"`
	Groups     []GroupRec     `json:"groups"` // groups during which the race log grew
}

// Group is one unit of concurrent work; it is what a replay re-runs.
type Group struct {
	Kind     string `json:"kind"`              // "loads", "transform", "traversal"
	Layouts  []string `json:"layouts,omitempty"` // layout file per goroutine
	N        int    `json:"n,omitempty"`       // services for the parallel operations
	Threads  int    `json:"threads"`
	Seed     uint64 `json:"seed"`
	Perturb  bool   `json:"perturb"`
	FailAt   int    `json:"fail_at,omitempty"` // callback index that fails (-1 none)
	ViaCLI   bool   `json:"via_cli,omitempty"` // loads go through cli.ProjectOptions.LoadProject
	ShareFiles bool `json:"share_config_files,omitempty"` // goroutines loading the same layout pass the same ConfigFiles slice
	ShareLoaders bool `json:"share_resource_loaders,omitempty"` // all loads of the group set Options.ResourceLoaders to the same slice (one entry, spare capacity)
	ShareInterp bool `json:"share_interpolation_options,omitempty"` // all loads of the group pass the same *interp.Options through their option function
	ShareEnv   bool `json:"share_environment,omitempty"`  // goroutines loading the same layout pass the same Environment map (one ConfigDetails value used twice)
}

type GroupRec struct {
	Group Group `json:"group"`
	From  int64 `json:"log_from"`
	To    int64 `json:"log_to"`
}

// ---- tiny PRNG (splitmix64), private per goroutine
type prng struct{ x uint64 }

func (p *prng) next() uint64 {
	p.x += 0x9e3779b97f4a7c15
	z := p.x
	z = (z ^ (z >> 30)) * 0xbf58476d1ce4e5b9
	z = (z ^ (z >> 27)) * 0x94d049bb133111eb
	return z ^ (z >> 31)
}
func (p *prng) n(n int) int { return int(p.next() % uint64(n)) }

func envInt(k string, d int) int {
	if s := os.Getenv(k); s != "" {
		if v, err := strconv.Atoi(s); err == nil {
			return v
		}
	}
	return d
}

func materialise(L *Layout, base string) error {
	L.root = base
	for p, content := range L.Files {
		real := filepath.Join(base, p)
		if err := os.MkdirAll(filepath.Dir(real), 0o755); err != nil {
			return err
		}
		// absolute paths inside documents point into the simulated tree: re-root them
		content = strings.ReplaceAll(content, "\""+L.WorkingDir, "\""+filepath.Join(base, L.WorkingDir))
		if err := os.WriteFile(real, []byte(content), 0o644); err != nil {
			return err
		}
	}
	return os.MkdirAll(filepath.Join(base, L.WorkingDir), 0o755)
}

type outcome struct {
	ok   bool
	err  string
	hash string
}

func spin(p *prng) {
	n := p.n(2000)
	x := 0
	for i := 0; i < n; i++ {
		x += i
	}
	if x == 42 {
		runtime.Gosched()
	}
	if p.n(4) == 0 {
		runtime.Gosched()
	}
}

// loadOnce performs one load with its OWN ConfigDetails, environment map and options.
func loadOnce(L *Layout, p *prng, perturb bool) outcome { return loadVia(L, p, perturb, false, nil, nil, nil) }

// callerInterp: interpolation settings as a caller may supply them through an option function - only the
// substitution function is set (variables are then looked up in the process environment, nothing is cast).
func callerInterp() *interp.Options { return &interp.Options{Substitute: template.Substitute} }

// configFiles builds the list of files to load (file names only: the loader reads them).
func configFiles(L *Layout) []types.ConfigFile {
	var out []types.ConfigFile
	for _, f := range L.Main {
		out = append(out, types.ConfigFile{Filename: filepath.Join(L.root, f)})
	}
	return out
}

// loadVia performs one load. Every call has its own Environment map and options; `shared`, when not nil, is a
// ConfigFiles slice handed to several concurrent calls (an input the loader has no business writing to).
// nopLoader is a caller-registered resource loader that accepts nothing.
type nopLoader struct{}

func (nopLoader) Accept(string) bool                           { return false }
func (nopLoader) Load(context.Context, string) (string, error) { return "", errors.New("not mine") }
func (nopLoader) Dir(string) string                            { return "." }

// callerLoaders: a loader list as a caller may keep it - one entry, room for more.
func callerLoaders() []loader.ResourceLoader {
	return append(make([]loader.ResourceLoader, 0, 4), nopLoader{})
}

// shareOpts: caller-provided values handed to the loader through the option function; when a group shares them
// every load of the group gets the same ones. The loader may read them.
type shareOpts struct {
	ip      *interp.Options
	loaders []loader.ResourceLoader
}

func loadVia(L *Layout, p *prng, perturb, viaCLI bool, shared []types.ConfigFile, sharedEnv types.Mapping, x *shareOpts) outcome {
	var ip *interp.Options
	if x != nil {
		ip = x.ip
	}
	cd := types.ConfigDetails{WorkingDir: filepath.Join(L.root, L.WorkingDir), Environment: types.Mapping{}}
	if sharedEnv != nil {
		// the same ConfigDetails value handed to several loads: an input, not a scratch pad
		cd.Environment = sharedEnv
	} else {
		for k, v := range L.Env {
			cd.Environment[k] = v
		}
	}
	if shared != nil {
		cd.ConfigFiles = shared
	} else {
		cd.ConfigFiles = configFiles(L)
	}
	o := L.Opts
	loadOpt := func(lo *loader.Options) {
		lo.SkipValidation = o.SkipValidation
		lo.SkipNormalization = o.SkipNormalization
		lo.ResolvePaths = !o.NoResolvePaths
		lo.SkipConsistencyCheck = o.SkipConsistencyCheck
		if len(o.Profiles) > 0 {
			lo.Profiles = append([]string(nil), o.Profiles...)
		}
		name := o.ProjectName
		if name == "" {
			name = "defaultproj"
		}
		lo.SetProjectName(name, o.NameImperative)
		if ip != nil {
			lo.Interpolate = ip // a caller-provided value, possibly shared with concurrent loads: the loader may read it
		}
		if x != nil && x.loaders != nil {
			lo.ResourceLoaders = x.loaders
		}
		if perturb {
			// a listener is a caller-supplied function the library calls on its hot paths (extends/include)
			lo.Listeners = append(lo.Listeners, func(string, map[string]any) { spin(p) })
		}
	}
	var proj *types.Project
	var err error
	if viaCLI {
		// the same load through cli.ProjectOptions (own option object per call): .env lookup, OS environment
		var files []string
		for _, f := range L.Main {
			files = append(files, filepath.Join(L.root, f))
		}
		var env []string
		for k, v := range L.Env {
			env = append(env, k+"="+v)
		}
		sort.Strings(env)
		var po *cli.ProjectOptions
		po, err = cli.NewProjectOptions(files, cli.WithWorkingDirectory(filepath.Join(L.root, L.WorkingDir)), cli.WithEnv(env), cli.WithDotEnv, cli.WithLoadOptions(loadOpt))
		if err == nil {
			proj, err = po.LoadProject(context.Background())
		}
	} else {
		proj, err = loader.LoadWithContext(context.Background(), cd, loadOpt)
	}
	if err != nil {
		return outcome{err: err.Error()}
	}
	y, e1 := proj.MarshalYAML()
	j, e2 := proj.MarshalJSON()
	if e1 != nil || e2 != nil {
		return outcome{err: fmt.Sprint("marshal: ", e1, e2)}
	}
	h := sha256.Sum256(append(y, j...))
	return outcome{ok: true, hash: fmt.Sprintf("%x", h[:8])}
}

func project(n int) *types.Project {
	p := &types.Project{Name: "race", Services: types.Services{}}
	for i := 0; i < n; i++ {
		name := fmt.Sprintf("s%d", i)
		s := types.ServiceConfig{Name: name, Image: "img-" + name, Labels: types.Labels{"k": name}}
		if i > 0 {
			s.DependsOn = types.DependsOnConfig{fmt.Sprintf("s%d", (i-1)/2): {Condition: types.ServiceConditionStarted, Required: true}}
			if i > 2 {
				// shared descendants: everybody below the first level also depends on s0 directly
				s.DependsOn["s0"] = types.ServiceDependency{Condition: types.ServiceConditionStarted, Required: true}
			}
		}
		p.Services[name] = s
	}
	return p
}

// TestSoloChild is the fresh-process side of the third oracle: the parent starts this very binary with
// VERIF_SOLO_SEQ (layout files) and VERIF_SOLO_ROOTS (where the parent materialised them); the layouts are loaded
// one after the other on one goroutine and the outcome of the LAST one is printed.
func TestSoloChild(t *testing.T) {
	seq := os.Getenv("VERIF_SOLO_SEQ")
	if seq == "" {
		t.Skip("not a child")
	}
	logrus.SetOutput(io.Discard)
	var names, roots []string
	if json.Unmarshal([]byte(seq), &names) != nil || json.Unmarshal([]byte(os.Getenv("VERIF_SOLO_ROOTS")), &roots) != nil || len(names) != len(roots) || len(names) == 0 {
		fmt.Println("SOLO-CHILD bad arguments")
		os.Exit(2)
	}
	var last outcome
	for i, n := range names {
		b, err := os.ReadFile(filepath.Join(os.Getenv("VERIF_LAYOUT_DIR"), n))
		L := &Layout{}
		if err != nil || json.Unmarshal(b, L) != nil {
			fmt.Println("SOLO-CHILD cannot read layout", n)
			os.Exit(2)
		}
		L.name, L.root = n, roots[i]
		var x *shareOpts
		if os.Getenv("VERIF_SOLO_INTERP") == "1" {
			x = &shareOpts{ip: callerInterp()}
		}
		last = loadVia(L, &prng{x: 1}, false, os.Getenv("VERIF_SOLO_CLI") == "1", nil, nil, x)
	}
	b, _ := json.Marshal(map[string]any{"ok": last.ok, "hash": last.hash, "err": last.err})
	fmt.Println("SOLO-CHILD-RESULT " + string(b))
}

// freshProcess loads the sequence in a new process and returns the outcome of its last element.
func freshProcess(names, roots []string, viaCLI bool, withInterp ...bool) (outcome, error) {
	nb, _ := json.Marshal(names)
	rb, _ := json.Marshal(roots)
	cmd := exec.Command(os.Args[0], "-test.run", "^TestSoloChild$", "-test.timeout", "120s")
	cli := "0"
	if viaCLI {
		cli = "1"
	}
	cmd.Env = append(os.Environ(), "VERIF_SOLO_SEQ="+string(nb), "VERIF_SOLO_ROOTS="+string(rb), "VERIF_SOLO_CLI="+cli, "VERIF_OUT=", "GOMAXPROCS=2")
	if len(withInterp) > 0 && withInterp[0] {
		cmd.Env = append(cmd.Env, "VERIF_SOLO_INTERP=1")
	}
	b, err := cmd.Output()
	for _, line := range strings.Split(string(b), "\n") {
		if rest, ok := strings.CutPrefix(line, "SOLO-CHILD-RESULT "); ok {
			var m struct {
				OK   bool   `json:"ok"`
				Hash string `json:"hash"`
				Err  string `json:"err"`
			}
			if json.Unmarshal([]byte(rest), &m) == nil {
				return outcome{ok: m.OK, hash: m.Hash, err: m.Err}, nil
			}
		}
	}
	return outcome{}, fmt.Errorf("fresh-process child gave no result (%v): %s", err, string(b))
}

func TestRace(t *testing.T) {
	dir := os.Getenv("VERIF_LAYOUT_DIR")
	if dir == "" {
		t.Skip("VERIF_LAYOUT_DIR not set")
	}
	logrus.SetOutput(io.Discard)
	seed := uint64(envInt("VERIF_SEED", 1))
	worker := envInt("VERIF_WORKER", 0)
	workers := envInt("VERIF_WORKERS", 1)
	budget := time.Duration(envInt("VERIF_BUDGET_S", 30)) * time.Second
	maxGroups := envInt("VERIF_RUNS", 1<<30)
	out := os.Getenv("VERIF_OUT")
	scratch := os.Getenv("VERIF_FS_SCRATCH")
	raceLog := os.Getenv("VERIF_RACE_LOG") // the file the race runtime writes to (log_path.<pid>)
	if raceLog != "" {
		raceLog += "." + strconv.Itoa(os.Getpid())
	}
	res := &Result{Engine: "race", Seed: seed, Counters: map[string]int{}, Max: map[string]int{}}
	start := time.Now()
	files, _ := filepath.Glob(filepath.Join(dir, "layout-*.json"))
	sort.Strings(files)
	layouts := map[string]*Layout{}
	layoutIdx := map[string]int{}
	solo := map[string]outcome{}
	var loadedOrder []string // layouts in the order this process first loaded them
	loadedSeen := map[string]bool{}
	var replay *Group
	if rp := os.Getenv("VERIF_REPLAY_GROUP"); rp != "" {
		var g Group
		if err := json.Unmarshal([]byte(rp), &g); err != nil {
			fmt.Fprintln(os.Stderr, "bad VERIF_REPLAY_GROUP:", err)
			os.Exit(2)
		}
		replay = &g
	}
	for i, f := range files {
		b, err := os.ReadFile(f)
		if err != nil {
			continue
		}
		L := &Layout{}
		if err := json.Unmarshal(b, L); err != nil {
			continue
		}
		L.name = filepath.Base(f)
		if err := materialise(L, filepath.Join(scratch, fmt.Sprintf("w%d-l%d", worker, i))); err != nil {
			fmt.Fprintln(os.Stderr, "materialise:", err)
			os.Exit(2)
		}
		layouts[L.name] = L
		layoutIdx[L.name] = i
		// NOTE: the solo outcomes are computed after the concurrent groups (see below): loading every layout
		// once up front would warm any lazily initialised process-level state and hide first-use races
	}
	names := make([]string, 0, len(layouts))
	for n := range layouts {
		names = append(names, n)
	}
	sort.Strings(names)
	logSize := func() int64 {
		if raceLog == "" {
			return 0
		}
		st, err := os.Stat(raceLog)
		if err != nil {
			return 0
		}
		return st.Size()
	}
	nt := map[string]bool{}
	type pendingCmp struct {
		g    Group
		idx  int
		outs []outcome
	}
	var pending []pendingCmp
	master := &prng{x: seed*1000003 + uint64(worker)*7919}
	shareEnvGroups := 0
	var runGroup func(g Group, idx int)
	runGroup = func(g Group, idx int) {
		before := logSize()
		switch g.Kind {
		case "sequence":
			// replay of a fresh-process difference: the sequence in one new process against its last element alone
			var roots []string
			for _, n := range g.Layouts {
				roots = append(roots, layouts[n].root)
			}
			last := len(g.Layouts) - 1
			alone, e1 := freshProcess(g.Layouts[last:], roots[last:], g.ViaCLI, g.ShareInterp)
			after, e2 := freshProcess(g.Layouts, roots, g.ViaCLI, g.ShareInterp)
			if e1 == nil && e2 == nil && (alone.ok != after.ok || alone.hash != after.hash) {
				sc, _ := json.Marshal(g)
				res.Violations = append(res.Violations, Violation{Property: "C19", Clause: "result-differs-from-fresh-process", Key: "load-result-differs-from-what-a-fresh-process-returns",
					Detail: fmt.Sprintf("layout %s: alone ok=%v hash=%s err=%q; after the loads of %v: ok=%v hash=%s err=%q", g.Layouts[last], alone.ok, alone.hash, alone.err, g.Layouts[:last], after.ok, after.hash, after.err),
					Engine: "race", RunIndex: idx, RunSeed: g.Seed, Scenario: sc})
			}
		case "loads":
			var wg sync.WaitGroup
			var ready atomic.Int32
			gate := make(chan struct{})
			outs := make([]outcome, len(g.Layouts))
			sharedFiles := map[string][]types.ConfigFile{}
			if g.ShareFiles && !g.ViaCLI {
				for _, n := range g.Layouts {
					if sharedFiles[n] == nil {
						sharedFiles[n] = configFiles(layouts[n])
					}
				}
			}
			sharedEnv := map[string]types.Mapping{}
			if g.ShareEnv && !g.ViaCLI {
				for _, n := range g.Layouts {
					if sharedEnv[n] == nil {
						m := types.Mapping{}
						for k, v := range layouts[n].Env {
							m[k] = v
						}
						sharedEnv[n] = m
					}
				}
			}
			var groupShare *shareOpts
			if g.ShareInterp {
				groupShare = &shareOpts{ip: callerInterp()}
			}
			if g.ShareLoaders {
				if groupShare == nil {
					groupShare = &shareOpts{}
				}
				groupShare.loaders = callerLoaders()
			}
			for i := range g.Layouts {
				wg.Add(1)
				i := i
				L := layouts[g.Layouts[i]]
				if !loadedSeen[L.name] {
					loadedSeen[L.name] = true
					loadedOrder = append(loadedOrder, L.name)
				}
				p := &prng{x: g.Seed + uint64(i)*0x9e37}
				go func() {
					defer wg.Done()
					ready.Add(1)
					<-gate
					if g.Perturb {
						spin(p) // start stagger
					}
					if g.ShareEnv && i > 0 {
						// no synchronisation (the race detector needs none to see unordered accesses), only
						// distance in time: accesses that truly overlap on a Go map make the runtime abort the
						// whole process ("concurrent map writes"), which would cost the worker its remaining budget
						time.Sleep(time.Duration(i) * 150 * time.Millisecond)
					}
					outs[i] = loadVia(L, p, g.Perturb, g.ViaCLI, sharedFiles[L.name], sharedEnv[L.name], groupShare)
				}()
			}
			for int(ready.Load()) < len(g.Layouts) {
				runtime.Gosched()
			}
			close(gate)
			wg.Wait()
			pending = append(pending, pendingCmp{g: g, idx: idx, outs: outs})
			res.Counters["concurrent-loads"] += len(outs)
		case "transform":
			p := project(g.N)
			var calls atomic.Int32
			np, err := p.WithServicesTransform(func(name string, s types.ServiceConfig) (types.ServiceConfig, error) {
				k := int(calls.Add(1))
				if g.Perturb {
					pp := &prng{x: g.Seed + uint64(k)}
					spin(pp)
				}
				if g.FailAt > 0 && k == g.FailAt {
					return s, errors.New("fn failed")
				}
				s.Image = "t-" + name
				return s, nil
			})
			if err == nil {
				for i := 0; i < g.N; i++ {
					n := fmt.Sprintf("s%d", i)
					if np.Services[n].Image != "t-"+n {
						sc, _ := json.Marshal(g)
						res.Violations = append(res.Violations, Violation{Property: "C19", Clause: "fanout-result-wrong", Key: "fanout-result-wrong (real threads)",
							Detail: fmt.Sprintf("%s: %q", n, np.Services[n].Image), Engine: "race", RunIndex: idx, RunSeed: g.Seed, Scenario: sc})
					}
				}
			}
			res.Counters["real-thread-transforms"]++
		case "shared-derivations":
			// several callers derive from (and render, and walk) the SAME loaded project at once: every one of these
			// operations promises to leave its receiver alone
			if len(g.Layouts) == 0 {
				break
			}
			L := layouts[g.Layouts[0]]
			cd := types.ConfigDetails{WorkingDir: filepath.Join(L.root, L.WorkingDir), Environment: types.Mapping{}, ConfigFiles: configFiles(L)}
			for k, v := range L.Env {
				cd.Environment[k] = v
			}
			p, err := loader.LoadWithContext(context.Background(), cd, func(lo *loader.Options) {
				lo.SetProjectName("shared", true)
				lo.SkipConsistencyCheck = true
				lo.Profiles = []string{"dev"}
			})
			if err != nil || p == nil {
				res.Counters["shared-derivations-load-failed"]++
				break
			}
			before, _ := p.MarshalJSON()
			names := p.ServiceNames()
			var disabled []string
			for n := range p.DisabledServices {
				disabled = append(disabled, n)
			}
			sort.Strings(disabled)
			ops := []func(){
				func() { _, _ = p.WithServicesEnvironmentResolved(false) },
				func() { _, _ = p.WithServicesEnvironmentResolved(true) },
				func() { _, _ = p.WithServicesLabelsResolved(false) },
				func() { _, _ = p.WithProfiles([]string{"*"}) },
				func() { _, _ = p.WithProfiles(p.Profiles) },
				func() {
					if len(disabled) > 0 {
						_, _ = p.WithServicesEnabled(disabled[0])
					}
				},
				func() {
					if len(names) > 0 {
						_ = p.WithServicesDisabled(names[0])
					}
				},
				func() {
					if len(names) > 0 {
						_, _ = p.WithSelectedServices(names[len(names)-1:])
					}
				},
				func() { _ = p.WithoutUnnecessaryResources() },
				func() {
					_, _ = p.WithImagesResolved(func(named reference.Named) (godigest.Digest, error) { return godigest.FromString(named.String()), nil })
				},
				func() {
					_, _ = p.WithServicesTransform(func(name string, s types.ServiceConfig) (types.ServiceConfig, error) {
						s.Labels = s.Labels.Add("seen", name)
						return s, nil
					})
				},
				func() {
					_ = p.ForEachService(names, func(name string, s *types.ServiceConfig) error {
						s.Labels = s.Labels.Add("seen", name)
						if len(s.Command) > 0 {
							s.Command[0] = "changed"
						}
						return nil
					})
				},
				func() { _, _ = p.MarshalYAML() },
				func() { _, _ = p.MarshalJSON() },
				func() {
					_ = graph.InDependencyOrder(context.Background(), p, func(ctx context.Context, name string, s types.ServiceConfig) error { return nil })
				},
				func() { _ = p.AllServices(); _ = p.VolumeNames(); _ = p.NetworkNames() },
			}
			var wg sync.WaitGroup
			for i := 0; i < 2+g.Threads; i++ {
				wg.Add(1)
				op := ops[int((g.Seed>>8)+uint64(i)*7)%len(ops)]
				pp := &prng{x: g.Seed + uint64(i)}
				go func() {
					defer wg.Done()
					if g.Perturb {
						spin(pp)
					}
					op()
				}()
			}
			wg.Wait()
			after, _ := p.MarshalJSON()
			if string(before) != string(after) {
				sc, _ := json.Marshal(g)
				res.Violations = append(res.Violations, Violation{Property: "C19", Clause: "shared-project-modified", Key: "shared-project-modified-by-concurrent-derivations",
					Detail: fmt.Sprintf("layout %s: the project rendered differently after %d concurrent derivations", L.name, 2+g.Threads), Engine: "race", RunIndex: idx, RunSeed: g.Seed, Scenario: sc})
			}
			res.Counters["real-thread-shared-derivations"]++
		case "shared-traversal":
			// several callers walk the SAME project at once: the walk promises not to modify it
			p := project(g.N)
			if g.N > 0 {
				s := p.Services["s0"]
				if s.DependsOn == nil {
					s.DependsOn = types.DependsOnConfig{}
				}
				s.DependsOn["ghost"] = types.ServiceDependency{Condition: types.ServiceConditionStarted, Required: false}
				p.Services["s0"] = s
			}
			var wg sync.WaitGroup
			for i := 0; i < 2+g.Threads; i++ {
				wg.Add(1)
				go func() {
					defer wg.Done()
					_ = graph.InDependencyOrder(context.Background(), p, func(ctx context.Context, name string, s types.ServiceConfig) error { return nil })
				}()
			}
			wg.Wait()
			res.Counters["real-thread-shared-traversals"]++
		case "traversal":
			p := project(g.N)
			var calls atomic.Int32
			opts := []func(*graph.Options){}
			if g.Threads > 0 {
				opts = append(opts, graph.WithMaxConcurrency(g.Threads))
			}
			if g.Seed%2 == 0 {
				opts = append(opts, graph.InReverseOrder)
			}
			if (g.Seed/2)%2 == 0 && g.N > 0 {
				opts = append(opts, graph.WithRootNodesAndDown([]string{fmt.Sprintf("s%d", int(g.Seed/4)%g.N)}))
			}
			_ = graph.InDependencyOrder(context.Background(), p, func(ctx context.Context, name string, s types.ServiceConfig) error {
				k := int(calls.Add(1))
				if g.Perturb {
					pp := &prng{x: g.Seed + uint64(k)}
					spin(pp)
				}
				if g.FailAt > 0 && k == g.FailAt {
					return errors.New("visit failed")
				}
				return nil
			}, opts...)
			res.Counters["real-thread-traversals"]++
		}
		after := logSize()
		if after > before {
			res.Groups = append(res.Groups, GroupRec{Group: g, From: before, To: after})
			res.Counters["groups-with-race-reports"]++
		}
	}
	// second oracle, evaluated once the groups are done: every concurrent result equals the solo result
	compareWithSolo := func() {
		for _, pc := range pending {
			for i, o := range pc.outs {
				name := pc.g.Layouts[i]
				skey := name
				if pc.g.ViaCLI {
					skey += "#cli"
				}
				var soloInterp *shareOpts
				if pc.g.ShareInterp {
					skey += "#interp"
					soloInterp = &shareOpts{ip: callerInterp()}
				}
				s, ok := solo[skey]
				if !ok {
					s = loadVia(layouts[name], &prng{x: seed}, false, pc.g.ViaCLI, nil, nil, soloInterp)
					solo[skey] = s
					if s.ok {
						res.Counters["solo-ok"]++
					} else {
						res.Counters["solo-err"]++
					}
					// third oracle: "what it would return alone" is what a process that has done nothing else
					// returns. The layouts are shared out among the workers (each is checked by one of them).
					if replay == nil && time.Since(start) > budget+150*time.Second {
						// the comparisons with fresh processes are bounded in time: the driver allows a margin after
						// the budget, and a machine under load starts a new process slowly
						res.Counters["fresh-process-comparisons-skipped-for-time"]++
					} else if replay != nil || layoutIdx[name]%workers == worker%workers {
						fresh, err := freshProcess([]string{name}, []string{layouts[name].root}, pc.g.ViaCLI, pc.g.ShareInterp)
						switch {
						case err != nil:
							fmt.Fprintln(os.Stderr, err)
							res.Counters["fresh-process-child-failed"]++
						case fresh.ok != s.ok || fresh.hash != s.hash:
							// which earlier load does it take? try each one, sequentially, in a process of its own
							g := Group{Kind: "sequence", Layouts: append(append([]string(nil), loadedOrder...), name), ViaCLI: pc.g.ViaCLI, ShareInterp: pc.g.ShareInterp, Seed: pc.g.Seed}
							for _, p := range loadedOrder {
								if two, err := freshProcess([]string{p, name}, []string{layouts[p].root, layouts[name].root}, pc.g.ViaCLI, pc.g.ShareInterp); err == nil && (two.ok != fresh.ok || two.hash != fresh.hash) {
									g.Layouts = []string{p, name}
									break
								}
							}
							sc, _ := json.Marshal(g)
							res.Violations = append(res.Violations, Violation{Property: "C19", Clause: "result-differs-from-fresh-process", Key: "load-result-differs-from-what-a-fresh-process-returns",
								Detail: fmt.Sprintf("layout %s: in a fresh process ok=%v hash=%s err=%q; in this process, after the loads of %v: ok=%v hash=%s err=%q", name, fresh.ok, fresh.hash, fresh.err, g.Layouts[:len(g.Layouts)-1], s.ok, s.hash, s.err),
								Engine: "race", RunIndex: pc.idx, RunSeed: pc.g.Seed, Scenario: sc})
						default:
							res.Counters["fresh-process-comparisons"]++
						}
					}
				}
				if o.ok != s.ok || o.hash != s.hash {
					sc, _ := json.Marshal(pc.g)
					key := "concurrent-load-result-differs-from-solo"
					if pc.g.ShareEnv {
						// the two loads were handed ONE Environment map (see the known finding on loader.projectName)
						key += ":shared-environment-map"
					}
					res.Violations = append(res.Violations, Violation{Property: "C19", Clause: "result-differs-from-solo", Key: key,
						Detail: fmt.Sprintf("layout %s: alone ok=%v hash=%s err=%q; in a group of %d: ok=%v hash=%s err=%q", name, s.ok, s.hash, s.err, len(pc.outs), o.ok, o.hash, o.err),
						Engine: "race", RunIndex: pc.idx, RunSeed: pc.g.Seed, Scenario: sc})
				}
			}
		}
		pending = nil
	}
	flush := func() {
		compareWithSolo()
		for k := range nt {
			res.Nontrivial = append(res.Nontrivial, k)
		}
		sort.Strings(res.Nontrivial)
		res.WallS = time.Since(start).Seconds()
		res.Max["gomaxprocs"] = runtime.GOMAXPROCS(0)
		if out != "" {
			b, _ := json.Marshal(res)
			_ = os.WriteFile(out, b, 0o644)
		}
	}
	// a group that does not finish is a deadlock of the library's parallel operation (or of a load):
	// it is reported and the process ends, the stuck goroutines cannot be reclaimed
	inner := runGroup
	runGroup = func(g Group, idx int) {
		done := make(chan struct{})
		go func() { inner(g, idx); close(done) }()
		select {
		case <-done:
		case <-time.After(time.Duration(envInt("VERIF_GROUP_TIMEOUT_S", 30)) * time.Second):
			sc, _ := json.Marshal(g)
			res.Violations = append(res.Violations, Violation{Property: "C19", Clause: "deadlock", Key: "real-thread-deadlock:" + g.Kind,
				Detail: fmt.Sprintf("group %+v did not finish within %ds on real threads", g, envInt("VERIF_GROUP_TIMEOUT_S", 30)), Engine: "race", RunIndex: idx, RunSeed: g.Seed, Scenario: sc})
			res.Runs++
			flush()
			_ = os.RemoveAll(scratch)
			os.Exit(0)
		}
	}
	if replay != nil {
		tries := envInt("VERIF_REPLAY_TRIES", 20)
		for i := 0; i < tries; i++ {
			runGroup(*replay, i)
			compareWithSolo()
			if len(res.Groups) > 0 || len(res.Violations) > 0 {
				break
			}
		}
		res.Runs = 1
	} else {
		for idx := 0; idx < maxGroups && time.Since(start) < budget && len(names) > 0; idx++ {
			g := Group{Seed: master.next(), Perturb: master.n(3) != 0, FailAt: -1}
			switch k := master.n(10); {
			case k < 7:
				g.Kind = "loads"
				g.ViaCLI = master.n(4) == 0
				g.ShareFiles = master.n(3) == 0
				g.Threads = 2 + master.n(15)
				same := master.n(3) == 0
				g.ShareInterp = !g.ViaCLI && master.n(5) == 0
				g.ShareLoaders = !g.ViaCLI && master.n(5) == 0
				if !g.ViaCLI && shareEnvGroups < 12 && master.n(4) == 0 {
					// one ConfigDetails value (hence one Environment map) loaded by two goroutines
					g.ShareEnv, g.Threads, same = true, 2, true
					shareEnvGroups++
				}
				first := names[master.n(len(names))]
				for i := 0; i < g.Threads; i++ {
					if same {
						g.Layouts = append(g.Layouts, first)
					} else {
						g.Layouts = append(g.Layouts, names[master.n(len(names))])
					}
				}
				nt[fmt.Sprintf("loads:%v:%v:%v:%v:%v", g.Layouts, g.Perturb, g.ViaCLI, g.ShareEnv, g.ShareInterp)] = true
			case k < 9:
				g.Kind = "transform"
				g.N = master.n(7)
				if master.n(3) == 0 && g.N > 0 {
					g.FailAt = 1 + master.n(g.N)
				}
				nt[fmt.Sprintf("transform:%d:%d:%v:%d", g.N, g.FailAt, g.Perturb, g.Seed%64)] = true
			default:
				g.Kind = "traversal"
				if master.n(4) == 0 {
					g.Kind = "shared-traversal"
				} else if master.n(2) == 0 {
					g.Kind = "shared-derivations"
					g.Layouts = []string{names[master.n(len(names))]}
				}
				g.N = master.n(7)
				g.Threads = master.n(4)
				if master.n(3) == 0 && g.N > 0 {
					g.FailAt = 1 + master.n(g.N)
				}
				nt[fmt.Sprintf("traversal:%d:%d:%d:%v:%d", g.N, g.Threads, g.FailAt, g.Perturb, g.Seed%64)] = true
			}
			runGroup(g, idx)
			res.Runs++
			if len(res.Samples) < 3 {
				res.Samples = append(res.Samples, g)
			}
		}
	}
	flush()
	_ = os.RemoveAll(filepath.Join(scratch))
}
