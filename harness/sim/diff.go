package sim

import (
	"fmt"
	"reflect"
	"sort"
)

// FirstDiff returns the path of the first structural difference between a and
// b ("" when deeply equal). Maps are compared key-wise in sorted key order.
func FirstDiff(a, b any) string {
	return firstDiff(reflect.ValueOf(a), reflect.ValueOf(b), "", 0)
}

func firstDiff(a, b reflect.Value, p string, depth int) string {
	if depth > 60 {
		return ""
	}
	if !a.IsValid() || !b.IsValid() {
		if a.IsValid() != b.IsValid() {
			return p + " (validity)"
		}
		return ""
	}
	if a.Type() != b.Type() {
		return fmt.Sprintf("%s (type %s vs %s)", p, a.Type(), b.Type())
	}
	switch a.Kind() {
	case reflect.Ptr, reflect.Interface:
		if a.IsNil() || b.IsNil() {
			if a.IsNil() != b.IsNil() {
				return p + " (nil vs non-nil)"
			}
			return ""
		}
		return firstDiff(a.Elem(), b.Elem(), p, depth+1)
	case reflect.Struct:
		for i := 0; i < a.NumField(); i++ {
			if d := firstDiff(a.Field(i), b.Field(i), p+"."+a.Type().Field(i).Name, depth+1); d != "" {
				return d
			}
		}
		return ""
	case reflect.Slice, reflect.Array:
		if a.Kind() == reflect.Slice && a.IsNil() != b.IsNil() {
			return p + " (nil slice vs empty)"
		}
		if a.Len() != b.Len() {
			return fmt.Sprintf("%s (len %d vs %d)", p, a.Len(), b.Len())
		}
		for i := 0; i < a.Len(); i++ {
			if d := firstDiff(a.Index(i), b.Index(i), fmt.Sprintf("%s[%d]", p, i), depth+1); d != "" {
				return d
			}
		}
		return ""
	case reflect.Map:
		if a.IsNil() != b.IsNil() {
			return p + " (nil map vs empty)"
		}
		if a.Len() != b.Len() {
			return fmt.Sprintf("%s (map len %d vs %d)", p, a.Len(), b.Len())
		}
		keys := a.MapKeys()
		sort.Slice(keys, func(i, j int) bool { return fmt.Sprint(keys[i].Interface()) < fmt.Sprint(keys[j].Interface()) })
		for _, k := range keys {
			bv := b.MapIndex(k)
			if !bv.IsValid() {
				return fmt.Sprintf("%s[%v] (missing)", p, k.Interface())
			}
			if d := firstDiff(a.MapIndex(k), bv, fmt.Sprintf("%s[%v]", p, k.Interface()), depth+1); d != "" {
				return d
			}
		}
		return ""
	case reflect.Func:
		if a.IsNil() != b.IsNil() {
			return p + " (func nil-ness)"
		}
		return ""
	case reflect.String:
		if a.String() != b.String() {
			return p
		}
		return ""
	case reflect.Bool:
		if a.Bool() != b.Bool() {
			return p
		}
		return ""
	case reflect.Int, reflect.Int8, reflect.Int16, reflect.Int32, reflect.Int64:
		if a.Int() != b.Int() {
			return p
		}
		return ""
	case reflect.Uint, reflect.Uint8, reflect.Uint16, reflect.Uint32, reflect.Uint64, reflect.Uintptr:
		if a.Uint() != b.Uint() {
			return p
		}
		return ""
	case reflect.Float32, reflect.Float64:
		if a.Float() != b.Float() {
			return p
		}
		return ""
	}
	if a.CanInterface() && b.CanInterface() && !reflect.DeepEqual(a.Interface(), b.Interface()) {
		return p
	}
	return ""
}
