package sim

import (
	"context"
	"fmt"
	"io"
	"path"
	"runtime"
	"sort"
	"strings"

	"github.com/compose-spec/compose-go/v2/cli"
	"github.com/compose-spec/compose-go/v2/loader"
	"github.com/compose-spec/compose-go/v2/types"
	"github.com/compose-spec/compose-go/v2/zsimrt"
	"github.com/sirupsen/logrus"
)

func init() {
	logrus.SetOutput(io.Discard)
}

// Outcome of one load.
type Outcome struct {
	OK       bool   `json:"ok"`
	Err      string `json:"err,omitempty"`
	Both     bool   `json:"both,omitempty"`    // project and error both non-nil
	Neither  bool   `json:"neither,omitempty"` // both nil
	Panic    string `json:"panic,omitempty"`
	PanicAt  string `json:"panic_at,omitempty"` // innermost compose-go frame
	Stack    string `json:"stack,omitempty"`
	Budget   string `json:"budget,omitempty"`
	YAML     []byte `json:"-"`
	JSON     []byte `json:"-"`
	MarshalErr string `json:"marshal_err,omitempty"`
	Project  *types.Project `json:"-"`
	Model    map[string]any `json:"-"`
	Steps    uint64 `json:"steps,omitempty"`
	MaxDepth int    `json:"max_depth,omitempty"`
	KeysCalls uint64 `json:"keys_calls,omitempty"`
	IOEvents int   `json:"io_events,omitempty"`
}

// Kind classifies the outcome for comparisons: "ok", "err", "panic", "budget".
func (o *Outcome) Kind() string {
	switch {
	case o.Budget != "":
		return "budget"
	case o.Panic != "":
		return "panic"
	case o.OK:
		return "ok"
	}
	return "err"
}

// Materialise writes the layout onto a fresh simulated file system.
func Materialise(L *Layout) *zsimrt.FS {
	fs := zsimrt.NewFS()
	for _, d := range L.Dirs {
		fs.MkdirAll(d)
	}
	paths := make([]string, 0, len(L.Files))
	for p := range L.Files {
		paths = append(paths, p)
	}
	sort.Strings(paths)
	for _, p := range paths {
		if strings.HasSuffix(p, "/") {
			fs.MkdirAll(p)
			continue
		}
		fs.WriteFile(p, []byte(L.Files[p]))
	}
	fs.Cwd = L.Cwd
	if fs.Cwd == "" {
		fs.Cwd = "/"
	}
	fs.MkdirAll(fs.Cwd)
	fs.Home = L.Home
	fs.Env = append([]string(nil), L.OSEnv...)
	fs.Stdin = []byte(L.Stdin)
	return fs
}

// stubLoader is the S4 seam: a remote ResourceLoader for sim:// references.
type stubLoader struct {
	L     *Layout
	fs    *zsimrt.FS
	fault string // "", "loader-err", "loader-stale", "loader-cancel"
	calls *int
}

func (s stubLoader) Accept(p string) bool { return strings.HasPrefix(p, "sim://") }
func (s stubLoader) Load(ctx context.Context, p string) (string, error) {
	*s.calls++
	switch s.fault {
	case "loader-err":
		return "", fmt.Errorf("stub loader: cannot fetch %s", p)
	case "loader-cancel":
		return "", context.Canceled
	case "loader-stale":
		return "/cache/evicted/" + path.Base(p), nil
	}
	if local, ok := s.L.Remote[p]; ok {
		return local, nil
	}
	return "", fmt.Errorf("stub loader: unknown resource %s", p)
}
func (s stubLoader) Dir(p string) string {
	if local, ok := s.L.Remote[p]; ok {
		return path.Dir(local)
	}
	return "/cache"
}

func loadOptions(L *Layout, extra ...func(*loader.Options)) []func(*loader.Options) {
	o := L.Opts
	fns := []func(*loader.Options){func(lo *loader.Options) {
		lo.SkipValidation = o.SkipValidation
		lo.SkipInterpolation = o.SkipInterpolation
		lo.SkipNormalization = o.SkipNormalization
		lo.ResolvePaths = !o.NoResolvePaths
		lo.ConvertWindowsPaths = o.ConvertWindowsPaths
		lo.SkipConsistencyCheck = o.SkipConsistencyCheck
		lo.SkipExtends = o.SkipExtends
		lo.SkipInclude = o.SkipInclude
		lo.SkipResolveEnvironment = o.SkipResolveEnvironment
		lo.SkipDefaultValues = o.SkipDefaultValues
		if len(o.Profiles) > 0 {
			lo.Profiles = append([]string(nil), o.Profiles...)
		}
		if o.ProjectName != "" {
			lo.SetProjectName(o.ProjectName, o.NameImperative)
		}
	}}
	if o.DiscardEnvFiles {
		fns = append(fns, loader.WithDiscardEnvFiles)
	}
	return append(fns, extra...)
}

func composeFrame(stack string) string {
	// innermost frame of the library (not zsimrt, not the harness)
	lines := strings.Split(stack, "\n")
	for i := 0; i+1 < len(lines); i++ {
		l := lines[i]
		if strings.Contains(l, "compose-spec/compose-go/v2/") && !strings.Contains(l, "/zsimrt.") && !strings.HasPrefix(l, "\t") {
			fn := l
			if j := strings.LastIndex(fn, "("); j > 0 {
				fn = fn[:j]
			}
			fn = strings.TrimPrefix(fn, "github.com/compose-spec/compose-go/v2/")
			loc := strings.TrimSpace(lines[i+1])
			if k := strings.Index(loc, "/compose-go/"); k >= 0 {
				loc = loc[k+len("/compose-go/"):]
			} else if k := strings.LastIndex(loc, "/src/"); k >= 0 {
				loc = loc[k+len("/src/"):]
			}
			if k := strings.Index(loc, " +0x"); k >= 0 {
				loc = loc[:k]
			}
			return fn + " " + loc
		}
	}
	return "?"
}

func msgClass(v any) string {
	s := fmt.Sprint(v)
	// strip volatile parts (addresses, lengths)
	for _, cut := range []string{" [recovered]"} {
		s = strings.ReplaceAll(s, cut, "")
	}
	if len(s) > 120 {
		s = s[:120]
	}
	return s
}

// RunLoad performs one load of the layout on the given simulated FS under the
// active run. It never lets a panic escape.
// one option function value for the whole process (see Layout.CliSharedOptionFns)
var sharedDefaultProfiles = cli.WithDefaultProfiles()

func RunLoad(L *Layout, fs *zsimrt.FS, stubFault string, render bool) (out *Outcome) {
	out = &Outcome{}
	r := zsimrt.Current()
	if r != nil {
		r.FS = fs
		r.ResetCounters()
	}
	defer func() {
		if r != nil {
			out.Steps, out.KeysCalls, out.MaxDepth = r.Steps, r.KeysCalls, r.MaxDepthSeen
			if fs != nil {
				out.IOEvents = len(fs.Events)
			}
		}
		if v := recover(); v != nil {
			if b, ok := v.(zsimrt.BudgetExceeded); ok {
				out.Budget = b.Error()
				return
			}
			buf := make([]byte, 16384)
			buf = buf[:runtime.Stack(buf, false)]
			out.Panic = msgClass(v)
			out.Stack = string(buf)
			out.PanicAt = composeFrame(out.Stack)
		}
	}()
	ctx := context.Background()
	calls := 0
	stub := stubLoader{L: L, fs: fs, fault: stubFault, calls: &calls}
	withStub := func(lo *loader.Options) {
		if !L.Opts.NoStubLoader || len(L.Remote) > 0 {
			lo.ResourceLoaders = append(lo.ResourceLoaders, stub)
		}
	}
	var proj *types.Project
	var err error
	switch L.Entry {
	case "cli":
		var po *cli.ProjectOptions
		opts := []cli.ProjectOptionsFn{cli.WithWorkingDirectory(L.WorkingDir), cli.WithOsEnv, cli.WithEnv(envList(L.Env)), cli.WithEnvFiles(L.CliEnvFiles...), cli.WithDotEnv,
			cli.WithConfigFileEnv, cli.WithDefaultConfigPath, cli.WithResourceLoader(stub), cli.WithLoadOptions(loadOptions(L)...)}
		if L.Opts.ProjectName != "" && L.Opts.NameImperative {
			opts = append(opts, cli.WithName(L.Opts.ProjectName))
		}
		if L.CliProfilesFromEnv {
			if L.CliSharedOptionFns {
				opts = append(opts, sharedDefaultProfiles)
			} else {
				opts = append(opts, cli.WithDefaultProfiles())
			}
		}
		po, err = cli.NewProjectOptions(L.Main, opts...)
		if err == nil {
			proj, err = po.LoadProject(ctx)
		}
	case "model":
		cd := configDetails(L)
		var m map[string]any
		m, err = loader.LoadModelWithContext(ctx, cd, loadOptions(L, withStub)...)
		out.Model = m
		if (m == nil) == (err == nil) {
			if m == nil {
				out.Neither = true
			} else {
				out.Both = true
			}
		}
		out.OK = err == nil
		if err != nil {
			out.Err = err.Error()
		}
		return out
	default:
		cd := configDetails(L)
		proj, err = loader.LoadWithContext(ctx, cd, loadOptions(L, withStub)...)
	}
	if proj != nil && err != nil {
		out.Both = true
	}
	if proj == nil && err == nil {
		out.Neither = true
	}
	if err != nil {
		out.Err = err.Error()
		return out
	}
	out.OK = true
	out.Project = proj
	if render && proj != nil {
		y, e1 := proj.MarshalYAML()
		j, e2 := proj.MarshalJSON()
		out.YAML, out.JSON = y, j
		if e1 != nil {
			out.MarshalErr = "yaml: " + e1.Error()
		} else if e2 != nil {
			out.MarshalErr = "json: " + e2.Error()
		}
	}
	return out
}

// RunLoadPreparsed loads the layout twice from ONE ConfigDetails whose files carry a pre-parsed model
// (ConfigFile.Config, as a caller gets it from loader.ParseYAML) instead of a file name: the second load sees
// whatever the first one did to the caller's data.
func RunLoadPreparsed(L *Layout, fs *zsimrt.FS) (first, second *Outcome, ok bool) {
	r := zsimrt.Current()
	if r != nil {
		r.FS = fs
	}
	cd := types.ConfigDetails{WorkingDir: L.WorkingDir, Environment: types.Mapping{}}
	for k, v := range L.Env {
		cd.Environment[k] = v
	}
	for _, f := range L.Main {
		txt, present := L.Files[f]
		if !present || strings.Contains(txt, "\n---\n") {
			return nil, nil, false
		}
		m, err := loader.ParseYAML([]byte(txt))
		if err != nil {
			return nil, nil, false
		}
		cd.ConfigFiles = append(cd.ConfigFiles, types.ConfigFile{Filename: f, Config: m})
	}
	one := func() (out *Outcome) {
		out = &Outcome{}
		if r != nil {
			r.ResetCounters()
		}
		defer func() {
			if v := recover(); v != nil {
				if b, isBudget := v.(zsimrt.BudgetExceeded); isBudget {
					out.Budget = b.Error()
					return
				}
				buf := make([]byte, 16384)
				buf = buf[:runtime.Stack(buf, false)]
				out.Panic, out.Stack = msgClass(v), string(buf)
				out.PanicAt = composeFrame(out.Stack)
			}
		}()
		calls := 0
		stub := stubLoader{L: L, fs: fs, calls: &calls}
		proj, err := loader.LoadWithContext(context.Background(), cd, loadOptions(L, func(lo *loader.Options) { lo.ResourceLoaders = append(lo.ResourceLoaders, stub) })...)
		if err != nil {
			out.Err = err.Error()
			return out
		}
		out.OK, out.Project = true, proj
		out.YAML, _ = proj.MarshalYAML()
		out.JSON, _ = proj.MarshalJSON()
		return out
	}
	first = one()
	second = one()
	return first, second, true
}

// RunLoadCliTwice: one cli.ProjectOptions value, LoadProject called twice on it.
func RunLoadCliTwice(L *Layout, fs *zsimrt.FS) (first, second *Outcome, ok bool) {
	r := zsimrt.Current()
	if r != nil {
		r.FS = fs
	}
	calls := 0
	stub := stubLoader{L: L, fs: fs, calls: &calls}
	opts := []cli.ProjectOptionsFn{cli.WithWorkingDirectory(L.WorkingDir), cli.WithOsEnv, cli.WithEnv(envList(L.Env)), cli.WithEnvFiles(L.CliEnvFiles...), cli.WithDotEnv,
		cli.WithConfigFileEnv, cli.WithDefaultConfigPath, cli.WithResourceLoader(stub), cli.WithLoadOptions(loadOptions(L)...)}
	if L.Opts.ProjectName != "" && L.Opts.NameImperative {
		opts = append(opts, cli.WithName(L.Opts.ProjectName))
	}
	if L.CliProfilesFromEnv {
		opts = append(opts, cli.WithDefaultProfiles())
	}
	var po *cli.ProjectOptions
	var perr error
	func() {
		defer func() {
			if v := recover(); v != nil {
				perr = fmt.Errorf("panic: %v", v)
			}
		}()
		po, perr = cli.NewProjectOptions(L.Main, opts...)
	}()
	if perr != nil || po == nil {
		return nil, nil, false
	}
	one := func() (out *Outcome) {
		out = &Outcome{}
		if r != nil {
			r.ResetCounters()
		}
		defer func() {
			if v := recover(); v != nil {
				if b, isBudget := v.(zsimrt.BudgetExceeded); isBudget {
					out.Budget = b.Error()
					return
				}
				buf := make([]byte, 16384)
				buf = buf[:runtime.Stack(buf, false)]
				out.Panic, out.Stack = msgClass(v), string(buf)
				out.PanicAt = composeFrame(out.Stack)
			}
		}()
		proj, err := po.LoadProject(context.Background())
		if err != nil {
			out.Err = err.Error()
			return out
		}
		out.OK, out.Project = true, proj
		out.YAML, _ = proj.MarshalYAML()
		out.JSON, _ = proj.MarshalJSON()
		return out
	}
	first = one()
	second = one()
	return first, second, true
}

func envList(m map[string]string) []string {
	ks := make([]string, 0, len(m))
	for k := range m {
		ks = append(ks, k)
	}
	sort.Strings(ks)
	out := make([]string, 0, len(ks))
	for _, k := range ks {
		out = append(out, k+"="+m[k])
	}
	return out
}

func configDetails(L *Layout) types.ConfigDetails {
	cd := types.ConfigDetails{WorkingDir: L.WorkingDir, Environment: types.Mapping{}}
	for k, v := range L.Env {
		cd.Environment[k] = v
	}
	for _, f := range L.Main {
		cd.ConfigFiles = append(cd.ConfigFiles, types.ConfigFile{Filename: f})
	}
	return cd
}
