package sim

import (
	"sort"
	"strconv"
	"strings"
)

// Y is an ordered YAML tree the generators build and the emitter prints, so
// that key order, anchors, aliases and tags are all under the harness' control.
type Y struct {
	Kind   int // 0 scalar, 1 mapping, 2 sequence, 3 alias
	S      string
	Raw    bool // scalar printed as is (numbers, booleans, null); otherwise double-quoted
	Keys   []string
	Vals   []*Y
	Tag    string
	Anchor string
}

func Str(s string) *Y  { return &Y{S: s} }
func Raw(s string) *Y  { return &Y{S: s, Raw: true} }
func Int(i int) *Y     { return &Y{S: strconv.Itoa(i), Raw: true} }
func Bool(b bool) *Y   { return &Y{S: strconv.FormatBool(b), Raw: true} }
func Null() *Y         { return &Y{S: "null", Raw: true} }
func Map() *Y          { return &Y{Kind: 1} }
func Seq(v ...*Y) *Y   { return &Y{Kind: 2, Vals: v} }
func Alias(a string) *Y { return &Y{Kind: 3, S: a} }
func StrSeq(s ...string) *Y {
	y := Seq()
	for _, x := range s {
		y.Vals = append(y.Vals, Str(x))
	}
	return y
}

func (y *Y) Set(k string, v *Y) *Y {
	for i, kk := range y.Keys {
		if kk == k {
			y.Vals[i] = v
			return y
		}
	}
	y.Keys = append(y.Keys, k)
	y.Vals = append(y.Vals, v)
	return y
}

func (y *Y) Get(k string) *Y {
	for i, kk := range y.Keys {
		if kk == k {
			return y.Vals[i]
		}
	}
	return nil
}

func (y *Y) Del(k string) {
	for i, kk := range y.Keys {
		if kk == k {
			y.Keys = append(y.Keys[:i], y.Keys[i+1:]...)
			y.Vals = append(y.Vals[:i], y.Vals[i+1:]...)
			return
		}
	}
}

func (y *Y) Add(v *Y) *Y { y.Vals = append(y.Vals, v); return y }

func (y *Y) Clone() *Y {
	if y == nil {
		return nil
	}
	c := *y
	c.Keys = append([]string(nil), y.Keys...)
	c.Vals = make([]*Y, len(y.Vals))
	for i, v := range y.Vals {
		c.Vals[i] = v.Clone()
	}
	return &c
}

// Emit prints the tree as block-style YAML. perm, when non-nil, is asked for
// the order in which the keys of each mapping are written.
func Emit(y *Y, perm func(n int) []int) string {
	var b strings.Builder
	emit(&b, y, 0, perm, true)
	return b.String()
}

func prefix(y *Y) string {
	p := ""
	if y.Anchor != "" {
		p += "&" + y.Anchor + " "
	}
	if y.Tag != "" {
		p += y.Tag + " "
	}
	return p
}

func scalar(y *Y) string {
	if y.Raw {
		return y.S
	}
	return strconv.Quote(y.S)
}

func keyText(k string) string {
	if k == "<<" {
		return k
	}
	return strconv.Quote(k)
}

func emit(b *strings.Builder, y *Y, ind int, perm func(int) []int, top bool) {
	pad := strings.Repeat("  ", ind)
	switch y.Kind {
	case 0:
		b.WriteString(prefix(y) + scalar(y) + "\n")
	case 3:
		b.WriteString("*" + y.S + "\n")
	case 1:
		if len(y.Keys) == 0 {
			b.WriteString(prefix(y) + "{}\n")
			return
		}
		if !top || prefix(y) != "" {
			b.WriteString(strings.TrimRight(prefix(y), " ") + "\n")
		}
		order := make([]int, len(y.Keys))
		for i := range order {
			order[i] = i
		}
		if perm != nil {
			order = perm(len(y.Keys))
			// a mapping that defines an anchor must be written before its aliases
			sort.SliceStable(order, func(a, b int) bool { return y.Vals[order[a]].Anchor != "" && y.Vals[order[b]].Anchor == "" })
		}
		for _, i := range order {
			b.WriteString(pad + keyText(y.Keys[i]) + ": ")
			emitChild(b, y.Vals[i], ind+1, perm)
		}
	case 2:
		if len(y.Vals) == 0 {
			b.WriteString(prefix(y) + "[]\n")
			return
		}
		if !top || prefix(y) != "" {
			b.WriteString(strings.TrimRight(prefix(y), " ") + "\n")
		}
		for _, v := range y.Vals {
			b.WriteString(pad + "- ")
			emitChild(b, v, ind+1, perm)
		}
	}
}

func emitChild(b *strings.Builder, v *Y, ind int, perm func(int) []int) {
	emit(b, v, ind, perm, false)
}
