package sim

import (
	"fmt"
	"os"
	"testing"

	"github.com/compose-spec/compose-go/v2/zsimrt"
)

func TestDebugExtraHosts(t *testing.T) {
	if os.Getenv("VERIF_DEBUG_EH") == "" {
		t.Skip()
	}
	L := &Layout{Files: map[string]string{
		"/proj/compose.yaml":   "services:\n  web:\n    extends:\n      file: b/compose.yaml\n      service: base\n    extra_hosts: [\"a=1.1.1.1\", \"b=2.2.2.2\", \"c=3.3.3.3\"]\n  front:\n    extends: web\n",
		"/proj/b/compose.yaml": "services:\n  base:\n    image: x\n    extra_hosts: [\"a=1.1.1.1\"]\n",
	}, Main: []string{"/proj/compose.yaml"}, WorkingDir: "/proj", Cwd: "/proj", Env: map[string]string{}, Opts: LoadOpts{ProjectName: "p"}}
	for _, perm := range [][]int{{0, 1}, {1, 0}} {
		r := zsimrt.NewRun(1)
		zsimrt.Activate(r)
		r.SetPolicy(zsimrt.OrdSorted)
		r.PinSitePrefix = "loader.ApplyExtends"
		r.PinKeys = map[string][]int{"front,web": perm}
		o := RunLoad(L, Materialise(L), "", true)
		fmt.Println(perm, o.Kind(), o.Err, r.PinHits)
		if o.Project != nil {
			fmt.Println("  web:", o.Project.Services["web"].ExtraHosts, " front:", o.Project.Services["front"].ExtraHosts)
		}
	}
}
