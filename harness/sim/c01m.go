package sim

import (
	"fmt"
	"sort"
	"strings"

	"github.com/compose-spec/compose-go/v2/zsimrt"
	"gopkg.in/yaml.v3"
)

// Engine c01m: STRUCTURAL mutation of valid documents. One evaluation = one generated layout in which one to
// three nodes of the YAML trees (of any file: main, override, extends base, included) are replaced by a node
// of another kind, deleted, transplanted from elsewhere in the document, renamed (a subtree under another
// attribute's name), or turned into an alias of one of their ancestors. Unlike class C (c01c), which builds
// the minimal document around one (path, kind) pair, the odd node here sits among all the valid siblings a
// real document has (`type: bind` next to the odd `source`), and unlike the byte faults of class B the result
// is always well-formed YAML. The load has to return (T1), not panic (T2) and stay within the budgets (T3/T4).
func init() {
	engines["c01m"] = &engine{prop: "C01", run: c01mRun, replay: c01Replay}
}

func c01mRun(c *Ctx, r *zsimrt.Run) {
	L := c01Layout(r)
	g := &G{R: r, feat: map[string]bool{}, L: L}
	switch r.Draw("entry", 8) {
	case 0:
		L.Entry = "model"
	case 1:
		L.Entry = "cli"
		c01CliTweaks(g, L)
	}
	if r.Chance("m-default-options", 2, 3) {
		// validation on: a crash behind the schema's back is the interesting one
		L.Opts = LoadOpts{ProjectName: L.Opts.ProjectName, NameImperative: L.Opts.NameImperative, Profiles: L.Opts.Profiles}
	}
	markEnvFiles(L)
	var files []string
	for f, txt := range L.Files {
		if (strings.HasSuffix(f, ".yaml") || strings.HasSuffix(f, ".yml")) && !strings.Contains(txt, "\n---\n") {
			files = append(files, f)
		}
	}
	sort.Strings(files)
	if len(files) == 0 {
		return
	}
	nm := 1
	if r.Chance("m-more", 1, 3) {
		nm = 2 + r.Draw("m-n", 2)
	}
	applied := 0
	for i := 0; i < nm; i++ {
		// base and included files are loaded with validation off: weight them up
		f := files[r.Draw("m-file", len(files))]
		if r.Chance("m-prefer-sub", 1, 2) {
			var sub []string
			for _, x := range files {
				if cl := fileClass(x); cl == "extends-base-file" || cl == "included-file" {
					sub = append(sub, x)
				}
			}
			if len(sub) > 0 {
				f = sub[r.Draw("m-subfile", len(sub))]
			}
		}
		txt, desc, ok := mutateYAML(r, L.Files[f])
		if !ok {
			continue
		}
		if L.Stdin != "" && L.Files[f] == L.Stdin {
			L.Stdin = txt
		}
		L.Files[f] = txt
		if r.Chance("m-broadcast", 1, 3) {
			// merges (override files, extends) meet the mutated value only if the other side says something about
			// the same attribute: give every entry of the same section, in every file, the same value
			if n := broadcastAttr(L, files, f, desc); n > 0 {
				c.Count("mutation-broadcasts", 1)
				desc += "+broadcast"
			}
		}
		L.Features = append(L.Features, "mut:"+fileClass(f)+":"+desc)
		c.Count("mutation:"+strings.SplitN(desc, "@", 2)[0], 1)
		c.Count("mutated-file:"+fileClass(f), 1)
		applied++
	}
	if applied == 0 {
		return
	}
	sc := &c01Scenario{Layout: L, Policy: -1, ExecSeed: uint64(r.Draw("exec-seed", 1<<30)) + 1}
	c01Exec(c, r, sc, "M", false)
	c.Nontrivial(layoutDigest(L))
}

type ynode struct {
	n      *yaml.Node
	parent *yaml.Node
	idx    int
	isKey  bool
	anc    []*yaml.Node // ancestors that are collections
	path   string
}

func collectNodes(n, parent *yaml.Node, idx int, isKey bool, anc []*yaml.Node, path string, out *[]ynode) {
	*out = append(*out, ynode{n, parent, idx, isKey, anc, path})
	switch n.Kind {
	case yaml.MappingNode:
		a2 := append(append([]*yaml.Node(nil), anc...), n)
		for i := 0; i+1 < len(n.Content); i += 2 {
			k := n.Content[i].Value
			collectNodes(n.Content[i], n, i, true, a2, path+"."+k+"<key>", out)
			collectNodes(n.Content[i+1], n, i+1, false, a2, path+"."+k, out)
		}
	case yaml.SequenceNode:
		a2 := append(append([]*yaml.Node(nil), anc...), n)
		for i, ch := range n.Content {
			collectNodes(ch, n, i, false, a2, path+"[]", out)
		}
	}
}

func yscalar(tag, v string) *yaml.Node { return &yaml.Node{Kind: yaml.ScalarNode, Tag: tag, Value: v} }
func strNode(v string) *yaml.Node    { return &yaml.Node{Kind: yaml.ScalarNode, Tag: "!!str", Value: v} }
func seqNode(ch ...*yaml.Node) *yaml.Node {
	return &yaml.Node{Kind: yaml.SequenceNode, Tag: "!!seq", Content: ch}
}
func mapNode(kv ...*yaml.Node) *yaml.Node {
	return &yaml.Node{Kind: yaml.MappingNode, Tag: "!!map", Content: kv}
}

func copyNode(n *yaml.Node, depth int) *yaml.Node {
	if n == nil || depth > 40 {
		return strNode("deep")
	}
	cp := *n
	cp.Anchor = "" // no duplicate anchors; aliases keep pointing at the original
	cp.Content = nil
	for _, ch := range n.Content {
		cp.Content = append(cp.Content, copyNode(ch, depth+1))
	}
	return &cp
}

// mutateYAML applies one structural mutation and returns the re-encoded document.
func mutateYAML(r *zsimrt.Run, txt string) (string, string, bool) {
	var doc yaml.Node
	if err := yaml.Unmarshal([]byte(txt), &doc); err != nil || doc.Kind != yaml.DocumentNode || len(doc.Content) != 1 {
		return "", "", false
	}
	var nodes []ynode
	collectNodes(doc.Content[0], &doc, 0, false, nil, "", &nodes)
	if len(nodes) == 0 {
		return "", "", false
	}
	// deeper nodes are many; give the top two levels a fair share
	t := nodes[r.Draw("m-node", len(nodes))]
	if r.Chance("m-shallow", 1, 4) {
		var sh []ynode
		for _, x := range nodes {
			if len(x.anc) <= 2 {
				sh = append(sh, x)
			}
		}
		t = sh[r.Draw("m-shallow-node", len(sh))]
	}
	replace := func(nn *yaml.Node) {
		if t.parent.Kind == yaml.DocumentNode {
			t.parent.Content[0] = nn
		} else {
			t.parent.Content[t.idx] = nn
		}
	}
	desc := ""
	k := r.Draw("m-kind", 20)
	if t.isKey && k >= 5 && k != 14 {
		k = r.Draw("m-key-kind", 5) // keys: scalar replacements, or a rename
		if r.Chance("m-key-rename", 1, 2) {
			k = 14
		}
	}
	switch k {
	case 0:
		replace(yscalar("!!null", "null"))
		desc = "null"
	case 1:
		replace(yscalar("!!bool", "true"))
		desc = "bool"
	case 2:
		replace(yscalar("!!int", []string{"12", "-1", "0", "99999999999999999999", "0x10"}[r.Draw("m-int", 5)]))
		desc = "int"
	case 3:
		if r.Chance("m-timestamp", 1, 2) {
			// a scalar yaml.v3 decodes to time.Time (a JSON schema sees a string), or to bytes
			replace([]*yaml.Node{yscalar("!!timestamp", "2001-12-14"), yscalar("!!timestamp", "2001-12-14T21:59:43Z"), yscalar("!!binary", "aGVsbG8=")}[r.Draw("m-ts", 3)])
			desc = "timestamp"
		} else {
			replace(yscalar("!!float", []string{"1.5", ".inf", ".nan", "1e400"}[r.Draw("m-float", 4)]))
			desc = "float"
		}
	case 4:
		replace(strNode([]string{"str", "", "a:b:c", "${UNSET?err}", "$", "1", "true", "service:nosuch", "../../..", "~/x", "a b 'c", "\x00"}[r.Draw("m-str", 12)]))
		desc = "string"
	case 5:
		replace(seqNode())
		desc = "empty-list"
	case 6:
		if r.Chance("m-list-ts", 1, 3) {
			replace(seqNode(strNode("a"), yscalar("!!timestamp", "2001-12-14")))
		} else {
			replace(seqNode(strNode("a"), strNode("b=c")))
		}
		desc = "list"
	case 7:
		replace(seqNode(mapNode(strNode("k"), strNode("v")), mapNode(strNode("source"), yscalar("!!int", "12"), strNode("target"), seqNode())))
		desc = "list-of-maps"
	case 8:
		replace(mapNode())
		desc = "empty-map"
	case 9:
		replace(mapNode(strNode("k"), strNode("v"), strNode("name"), yscalar("!!int", "3"), strNode("x-y"), seqNode(strNode("z"))))
		desc = "map"
	case 10:
		replace(seqNode(yscalar("!!null", "null"), yscalar("!!int", "7"), seqNode(strNode("nested"))))
		desc = "mixed-list"
	case 11, 12:
		// delete
		switch {
		case t.parent.Kind == yaml.MappingNode:
			i := t.idx - t.idx%2
			t.parent.Content = append(append([]*yaml.Node(nil), t.parent.Content[:i]...), t.parent.Content[i+2:]...)
		case t.parent.Kind == yaml.SequenceNode:
			t.parent.Content = append(append([]*yaml.Node(nil), t.parent.Content[:t.idx]...), t.parent.Content[t.idx+1:]...)
		default:
			return "", "", false
		}
		desc = "delete"
	case 13:
		// transplant: a copy of another node of the same document
		o := nodes[r.Draw("m-other", len(nodes))]
		if o.isKey {
			return "", "", false
		}
		replace(copyNode(o.n, 0))
		desc = "transplant"
	case 14:
		// rename a key: the subtree now sits under another attribute's name
		var keys []ynode
		for _, x := range nodes {
			if x.isKey {
				keys = append(keys, x)
			}
		}
		if len(keys) < 2 {
			return "", "", false
		}
		a, b := keys[r.Draw("m-ka", len(keys))], keys[r.Draw("m-kb", len(keys))]
		if t.isKey {
			a = t
		}
		if a.n.Value == b.n.Value {
			return "", "", false
		}
		t = a
		nn := *a.n
		nn.Value = b.n.Value
		if r.Chance("m-odd-key", 1, 4) {
			// a name no pattern of the schema matches
			nn.Value = []string{"a b", "odd name!", "", "x\n", "1", "a.b"}[r.Draw("m-odd-key-v", 6)]
		}
		a.parent.Content[a.idx] = &nn
		desc = "rename"
	case 15, 16:
		// alias to an ancestor: a document that contains itself
		if len(t.anc) == 0 || t.isKey {
			return "", "", false
		}
		a := t.anc[r.Draw("m-anc", len(t.anc))]
		if a.Anchor == "" {
			a.Anchor = "mut"
		}
		replace(&yaml.Node{Kind: yaml.AliasNode, Value: a.Anchor, Alias: a})
		desc = "alias-to-ancestor"
	case 17:
		// merge key whose (anchored) value refers to itself / to the mapping it is merged into
		m := t.n
		if m.Kind != yaml.MappingNode {
			if len(t.anc) == 0 {
				return "", "", false
			}
			m = t.anc[len(t.anc)-1]
			if m.Kind != yaml.MappingNode {
				return "", "", false
			}
		}
		inner := mapNode()
		inner.Anchor = "mrg"
		target := inner
		if r.Chance("m-merge-outer", 1, 2) {
			if m.Anchor == "" {
				m.Anchor = "out"
			}
			target = m
		}
		inner.Content = []*yaml.Node{strNode("x"), {Kind: yaml.AliasNode, Value: target.Anchor, Alias: target}}
		m.Content = append([]*yaml.Node{yscalar("!!merge", "<<"), inner}, m.Content...)
		desc = "merge-self-alias"
	case 18:
		// tags
		if t.isKey {
			return "", "", false
		}
		nn := copyNode(t.n, 0)
		nn.Tag = []string{"!reset", "!override"}[r.Draw("m-tag", 2)]
		if nn.Kind == yaml.ScalarNode && nn.Tag == "!reset" {
			nn.Value = "null"
		}
		replace(nn)
		desc = "tag"
	default:
		// duplicate an entry of the enclosing collection
		switch {
		case t.parent.Kind == yaml.SequenceNode:
			t.parent.Content = append(t.parent.Content, copyNode(t.n, 0))
		case t.parent.Kind == yaml.MappingNode && !t.isKey:
			t.parent.Content = append(t.parent.Content, copyNode(t.parent.Content[t.idx-1], 0), copyNode(t.n, 0))
		default:
			return "", "", false
		}
		desc = "duplicate"
	}
	out, err := yaml.Marshal(&doc)
	if err != nil {
		return "", "", false
	}
	p := t.path
	if len(p) > 60 {
		p = p[:60]
	}
	return string(out), desc + "@" + p, true
}

// addDenseDAG: an ACYCLIC depends_on graph with very many paths (layers x width, every service depending on all
// services of the next layer). Nothing to refuse; the load has to finish within the budget.
func addDenseDAG(g *G, L *Layout) {
	layers := 6 + g.n("dag-layers", 9)
	width := 3 + g.n("dag-width", 5)
	var b strings.Builder
	b.WriteString("services:\n")
	long := g.chance("dag-long", 1, 2)
	for l := 0; l < layers; l++ {
		for w := 0; w < width; w++ {
			fmt.Fprintf(&b, "  l%02d_%d:\n    image: x\n", l, w)
			if l+1 < layers {
				b.WriteString("    depends_on:\n")
				for w2 := 0; w2 < width; w2++ {
					if long {
						fmt.Fprintf(&b, "      l%02d_%d:\n        condition: service_started\n", l+1, w2)
					} else {
						fmt.Fprintf(&b, "      - l%02d_%d\n", l+1, w2)
					}
				}
			}
		}
	}
	L.Files[L.Main[0]] = b.String()
	L.Main = L.Main[:1]
	L.Features = append(L.Features, fmt.Sprintf("dense-dag:%dx%d", layers, width))
}

// broadcastAttr: desc ends in "@.section.entry.attr..." (section = services, networks, volumes, secrets, configs). The
// value now found at section.entry.attr in file f is copied under the same attribute of every other entry of
// that section in every YAML file of the layout. Returns the number of entries written.
func broadcastAttr(L *Layout, files []string, f, desc string) int {
	i := strings.Index(desc, "@.")
	if i < 0 {
		return 0
	}
	segs := strings.Split(strings.TrimSuffix(desc[i+2:], "<key>"), ".")
	if len(segs) < 3 {
		return 0
	}
	section, entry, attr := segs[0], segs[1], strings.TrimSuffix(segs[2], "[]")
	attr = strings.TrimSuffix(attr, "<key>")
	switch section {
	case "services", "networks", "volumes", "secrets", "configs":
	default:
		return 0
	}
	get := func(m *yaml.Node, k string) *yaml.Node {
		if m == nil || m.Kind != yaml.MappingNode {
			return nil
		}
		for j := 0; j+1 < len(m.Content); j += 2 {
			if m.Content[j].Value == k {
				return m.Content[j+1]
			}
		}
		return nil
	}
	var src yaml.Node
	if yaml.Unmarshal([]byte(L.Files[f]), &src) != nil || len(src.Content) != 1 {
		return 0
	}
	val := get(get(get(src.Content[0], section), entry), attr)
	if val == nil {
		return 0
	}
	n := 0
	for _, g := range files {
		var doc yaml.Node
		if yaml.Unmarshal([]byte(L.Files[g]), &doc) != nil || len(doc.Content) != 1 {
			continue
		}
		sec := get(doc.Content[0], section)
		if sec == nil || sec.Kind != yaml.MappingNode {
			continue
		}
		changed := false
		for j := 0; j+1 < len(sec.Content); j += 2 {
			e := sec.Content[j+1]
			if e.Kind != yaml.MappingNode || (g == f && sec.Content[j].Value == entry) {
				continue
			}
			done := false
			for k := 0; k+1 < len(e.Content); k += 2 {
				if e.Content[k].Value == attr {
					e.Content[k+1] = copyNode(val, 0)
					done = true
				}
			}
			if !done {
				e.Content = append(e.Content, strNode(attr), copyNode(val, 0))
			}
			changed = true
			n++
		}
		if changed {
			if out, err := yaml.Marshal(&doc); err == nil {
				if L.Stdin != "" && L.Files[g] == L.Stdin {
					L.Stdin = string(out)
				}
				L.Files[g] = string(out)
			}
		}
	}
	return n
}

// addLongInput: inputs that are long in one dimension only - an env file with very many comment or blank lines,
// a value with deeply nested interpolation defaults. Nothing to refuse; the load has to finish within the budgets
// (recursion proportional to the number of lines is how a stack is exhausted).
func addLongInput(g *G, L *Layout) {
	var envs []string
	for f := range L.Files {
		if strings.HasSuffix(f, ".env") {
			envs = append(envs, f)
		}
	}
	sort.Strings(envs)
	if len(envs) > 0 && g.chance("long-env", 2, 3) {
		f := envs[g.n("long-env-file", len(envs))]
		n := 20000 + g.n("long-env-lines", 100000)
		line := []string{"#\n", "\n", "# a comment\n", "   \n"}[g.n("long-env-kind", 4)]
		L.Files[f] = strings.Repeat(line, n) + L.Files[f]
		L.Features = append(L.Features, fmt.Sprintf("long-env:%d", n))
		return
	}
	depth := 200 + g.n("nest-depth", 3000)
	v := strings.Repeat("${UNSET_A:-", depth) + "x" + strings.Repeat("}", depth)
	L.Files[L.Main[0]] = "services:\n  nested:\n    image: \"" + v + "\"\n"
	L.Main = L.Main[:1]
	L.Opts.SkipInterpolation = false
	L.Features = append(L.Features, fmt.Sprintf("nested-interpolation:%d", depth))
}
