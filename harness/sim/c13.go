package sim

import (
	"os"
	"context"
	"encoding/json"
	"errors"
	"fmt"
	"reflect"
	"sort"
	"strings"
	"sync"
	"testing"
	"testing/synctest"

	"github.com/compose-spec/compose-go/v2/graph"
	"github.com/compose-spec/compose-go/v2/types"
	"github.com/compose-spec/compose-go/v2/zsimrt"
)

func init() {
	engines["c13"] = &engine{prop: "C13", run: c13Run, replay: c13Replay}
}

type depEdge struct {
	To       string `json:"to"`
	Required bool   `json:"required"`
}

// c13Scenario is a dependency graph, traversal options and the fault plan.
type c13Scenario struct {
	Names    []string             `json:"names"`
	Deps     map[string][]depEdge `json:"deps"`
	Disabled []string             `json:"disabled,omitempty"`
	Reverse  bool                 `json:"reverse"`
	Limit    int                  `json:"limit"`
	Roots    []string             `json:"roots,omitempty"`
	Collect  bool                 `json:"collector"`
	Fail     []string             `json:"fail,omitempty"`      // visits that return an error
	CancelAt int                  `json:"cancel_at"`           // scheduler step at which the caller cancels (-1: never)
	Strategy int                  `json:"strategy"`
	Cyclic   bool                 `json:"cyclic"`
	Policy   int                  `json:"policy"`
	ExecSeed uint64               `json:"exec_seed"`
}

var shapeNames = []string{"random", "chain", "star-in", "star-out", "diamond", "two-components", "complete"}

func genGraph(r *zsimrt.Run, maxN int) *c13Scenario {
	sc := &c13Scenario{Deps: map[string][]depEdge{}, CancelAt: -1, Policy: -1}
	n := 1 + r.Draw("n", maxN)
	for i := 0; i < n; i++ {
		sc.Names = append(sc.Names, fmt.Sprintf("s%d", i))
	}
	// random topological order: service i may depend on services earlier in perm
	perm := make([]int, n)
	for i := range perm {
		perm[i] = i
	}
	for i := 0; i < n-1; i++ {
		j := i + r.Draw("topo", n-i)
		perm[i], perm[j] = perm[j], perm[i]
	}
	name := func(k int) string { return sc.Names[perm[k]] }
	add := func(from, to int) {
		for _, e := range sc.Deps[name(from)] {
			if e.To == name(to) {
				return
			}
		}
		sc.Deps[name(from)] = append(sc.Deps[name(from)], depEdge{To: name(to), Required: !r.Chance("optional-edge", 1, 4)})
	}
	switch shapeNames[r.Draw("shape", len(shapeNames))] {
	case "random":
		p := 1 + r.Draw("edge-p", 3) // 1/4 .. 3/4
		for i := 1; i < n; i++ {
			for j := 0; j < i; j++ {
				if r.Chance("edge", p, 4) {
					add(i, j)
				}
			}
		}
	case "chain":
		for i := 1; i < n; i++ {
			add(i, i-1)
		}
	case "star-in": // everybody depends on one
		for i := 1; i < n; i++ {
			add(i, 0)
		}
	case "star-out": // one depends on everybody
		for j := 0; j < n-1; j++ {
			add(n-1, j)
		}
	case "diamond":
		if n >= 4 {
			add(1, 0)
			add(2, 0)
			add(3, 1)
			add(3, 2)
			for i := 4; i < n; i++ {
				add(i, 3)
			}
		} else {
			for i := 1; i < n; i++ {
				add(i, 0)
			}
		}
	case "two-components":
		h := n / 2
		for i := 1; i < h; i++ {
			add(i, i-1)
		}
		for i := h + 1; i < n; i++ {
			add(i, h)
		}
	case "complete":
		for i := 1; i < n; i++ {
			for j := 0; j < i; j++ {
				add(i, j)
			}
		}
	}
	// optional dependencies on services that are disabled or do not exist
	if r.Chance("ghost-deps", 1, 5) {
		from := sc.Names[r.Draw("ghost-from", n)]
		if r.Chance("ghost-disabled", 1, 2) {
			sc.Disabled = append(sc.Disabled, "off0")
			sc.Deps[from] = append(sc.Deps[from], depEdge{To: "off0", Required: false})
		} else {
			sc.Deps[from] = append(sc.Deps[from], depEdge{To: "ghost", Required: false})
		}
	}
	sc.Reverse = r.Chance("reverse", 1, 2)
	sc.Limit = r.Draw("limit", 4)
	sc.Collect = r.Chance("collector", 1, 2)
	if r.Chance("roots", 1, 3) {
		k := 1 + r.Draw("nroots", 2)
		for i := 0; i < k; i++ {
			sc.Roots = append(sc.Roots, sc.Names[r.Draw("root", n)])
		}
		if r.Chance("unknown-root", 1, 8) {
			sc.Roots = append(sc.Roots, "nosuch")
		}
	}
	switch r.Draw("faults", 6) {
	case 0, 1: // one failing visit
		sc.Fail = []string{sc.Names[r.Draw("fail", n)]}
	case 2: // several
		for _, nm := range sc.Names {
			if r.Chance("fail-each", 1, 2) {
				sc.Fail = append(sc.Fail, nm)
			}
		}
	case 3:
		sc.CancelAt = r.Draw("cancel-at", 40)
	}
	sc.Strategy = r.Draw("strategy", 3)
	return sc
}

func genCyclic(r *zsimrt.Run) *c13Scenario {
	sc := genGraph(r, 4)
	sc.Cyclic = true
	sc.Roots = nil
	n := len(sc.Names)
	// make every edge required and close a cycle
	for k, es := range sc.Deps {
		var keep []depEdge
		for _, e := range es {
			if e.To == "ghost" || e.To == "off0" {
				continue
			}
			e.Required = true
			keep = append(keep, e)
		}
		sc.Deps[k] = keep
	}
	sc.Disabled = nil
	l := 1 + r.Draw("cycle-len", n)
	start := r.Draw("cycle-start", n)
	for i := 0; i < l; i++ {
		from := sc.Names[(start+i)%n]
		to := sc.Names[(start+(i+1)%l)%n]
		if l == 1 {
			to = from
		}
		dup := false
		for _, e := range sc.Deps[from] {
			if e.To == to {
				dup = true
			}
		}
		if !dup {
			sc.Deps[from] = append(sc.Deps[from], depEdge{To: to, Required: true})
		}
	}
	return sc
}

func (sc *c13Scenario) project() *types.Project {
	p := &types.Project{Name: "sim", Services: types.Services{}, DisabledServices: types.Services{}}
	mk := func(name string) types.ServiceConfig {
		s := types.ServiceConfig{Name: name, Image: "img-" + name, Labels: types.Labels{"k": name}}
		if es := sc.Deps[name]; len(es) > 0 {
			s.DependsOn = types.DependsOnConfig{}
			for _, e := range es {
				s.DependsOn[e.To] = types.ServiceDependency{Condition: types.ServiceConditionStarted, Required: e.Required}
			}
		}
		return s
	}
	for _, n := range sc.Names {
		p.Services[n] = mk(n)
	}
	for _, n := range sc.Disabled {
		s := mk(n)
		s.Profiles = []string{"off"}
		p.DisabledServices[n] = s
	}
	return p
}

// expected computes, from the statement, the set of services to be visited.
func (sc *c13Scenario) expected() map[string]bool {
	enabled := map[string]bool{}
	for _, n := range sc.Names {
		enabled[n] = true
	}
	exp := map[string]bool{}
	if len(sc.Roots) == 0 {
		for n := range enabled {
			exp[n] = true
		}
		return exp
	}
	roots := map[string]bool{}
	for _, r := range sc.Roots {
		roots[r] = true
	}
	var dependsOnRoot func(n string, seen map[string]bool) bool
	dependsOnRoot = func(n string, seen map[string]bool) bool {
		if seen[n] {
			return false
		}
		seen[n] = true
		for _, e := range sc.Deps[n] {
			if !enabled[e.To] {
				continue
			}
			if roots[e.To] || dependsOnRoot(e.To, seen) {
				return true
			}
		}
		return false
	}
	for n := range enabled {
		if roots[n] || dependsOnRoot(n, map[string]bool{}) {
			exp[n] = true
		}
	}
	return exp
}

// ---- the sequential reference model, evaluated at every visitor event

type c13Model struct {
	mu       sync.Mutex
	sc       *c13Scenario
	exp      map[string]bool
	entered  map[string]int
	exited   map[string]bool
	running  int
	maxRun   int
	failed   []error
	events   []string
	problems []string // clause: detail
	probes   map[string]int
}

func (m *c13Model) problem(clause, detail string) {
	m.problems = append(m.problems, clause+"|"+detail)
}

func (m *c13Model) enter(name string) {
	m.mu.Lock()
	defer m.mu.Unlock()
	m.events = append(m.events, "enter:"+name)
	sc := m.sc
	known := false
	for _, n := range sc.Names {
		if n == name {
			known = true
		}
	}
	if !known {
		m.problem("visit-of-non-enabled-service", name)
	}
	m.entered[name]++
	if m.entered[name] > 1 {
		m.problem("visited-twice", fmt.Sprintf("%s entered %d times", name, m.entered[name]))
	}
	if !m.exp[name] {
		m.problem("visit-outside-root-selection", name)
	}
	// ordering: forward = dependencies first; reverse = dependents first
	if !sc.Reverse {
		for _, e := range sc.Deps[name] {
			if m.exp[e.To] && !m.exited[e.To] {
				m.problem("started-before-dependency-returned", fmt.Sprintf("%s entered before its dependency %s returned", name, e.To))
			}
		}
	} else {
		for _, n := range sc.Names {
			for _, e := range sc.Deps[n] {
				if e.To == name && m.exp[n] && !m.exited[n] {
					m.problem("started-before-dependent-returned", fmt.Sprintf("reverse: %s entered before its dependent %s returned", name, n))
				}
			}
		}
	}
	m.running++
	if m.running > m.maxRun {
		m.maxRun = m.running
	}
	if sc.Limit > 0 && m.running > sc.Limit {
		after := ""
		if len(m.failed) > 0 {
			after = " after a visitor error"
		}
		m.problem("concurrency-bound-exceeded"+after, fmt.Sprintf("%d visits running with limit %d", m.running, sc.Limit))
	}
	if len(m.failed) > 0 {
		m.probes["visit-entered-after-first-error"]++
	}
}

func (m *c13Model) exit(name string, err error) {
	m.mu.Lock()
	defer m.mu.Unlock()
	m.events = append(m.events, "exit:"+name)
	m.exited[name] = true
	m.running--
	if err != nil {
		m.failed = append(m.failed, err)
	}
}

type cbResult struct {
	err error
}

// c13Outcome is what one scheduled execution produced.
type c13Outcome struct {
	Problems  []string
	Trace     []string
	Events    []string
	Steps     int
	MaxPar    int
	Choices   int
	Deadlock  bool
	Livelock  bool
	Unknown   int
	BubbleErr string
	Digest    string
	MaxRun    int
	Probes    map[string]int
}

// runTraversal executes the real traversal under the seeded task scheduler.
func runTraversal(t *testing.T, sc *c13Scenario, record bool) *c13Outcome {
	out := &c13Outcome{Probes: map[string]int{}}
	er := zsimrt.NewRun(sc.ExecSeed)
	er.SetPolicy(sc.Policy)
	zsimrt.Activate(er)
	defer zsimrt.Deactivate()
	model := &c13Model{sc: sc, exp: sc.expected(), entered: map[string]int{}, exited: map[string]bool{}, probes: out.Probes}
	project := sc.project()
	fails := map[string]bool{}
	for _, f := range sc.Fail {
		fails[f] = true
	}
	nEdges := 0
	for _, es := range sc.Deps {
		nEdges += len(es)
	}
	budget := 200*(len(sc.Names)+nEdges+1) + 200

	body := func(t *testing.T) {
		s := zsimrt.NewSched(er, synctest.Wait)
		s.Record = record
		s.SetStrategy(sc.Strategy, 60)
		ctx, cancel := context.WithCancel(context.Background())
		defer cancel()
		var retErr error
		var results map[string]string
		returned := false
		visitor := func(ctx context.Context, name string, svc types.ServiceConfig) (string, error) {
			model.enter(name)
			if svc.Name != name {
				model.mu.Lock()
				model.problem("wrong-service-passed", fmt.Sprintf("visitor for %s received service %q", name, svc.Name))
				model.mu.Unlock()
			}
			res := s.Callback("visit:"+name, name).(cbResult)
			model.exit(name, res.err)
			return "value-of-" + name, res.err
		}
		var opts []func(*graph.Options)
		if sc.Reverse {
			opts = append(opts, graph.InReverseOrder)
		}
		if sc.Limit > 0 {
			opts = append(opts, graph.WithMaxConcurrency(sc.Limit))
		}
		if len(sc.Roots) > 0 {
			opts = append(opts, graph.WithRootNodesAndDown(append([]string(nil), sc.Roots...)))
		}
		go func() {
			s.StartRoot("0")
			if sc.Collect {
				results, retErr = graph.CollectInDependencyOrder(ctx, project, visitor, opts...)
			} else {
				retErr = graph.InDependencyOrder(ctx, project, func(ctx context.Context, n string, svc types.ServiceConfig) error {
					_, err := visitor(ctx, n, svc)
					return err
				}, opts...)
			}
			model.mu.Lock()
			returned = true
			model.events = append(model.events, "return")
			if model.running != 0 {
				model.problem("returned-before-started-visits-returned", fmt.Sprintf("%d visits still running at return", model.running))
			}
			model.mu.Unlock()
			s.MarkDone()
		}()
		cancelled := false
		for {
			ps, done := s.Quiesce()
			if done {
				// drain whatever is still parked so that the bubble can end
				for i := 0; i < 1000 && len(ps) > 0; i++ {
					p := s.Pick(ps)
					s.Release(p, cbResult{})
					ps, _ = s.Quiesce()
				}
				break
			}
			if len(ps) == 0 {
				out.Deadlock = true
				cancel()
				break
			}
			if s.Steps > budget {
				out.Livelock = true
				break
			}
			if !cancelled && sc.CancelAt >= 0 && s.Steps >= sc.CancelAt {
				cancelled = true
				cancel()
				continue // quiesce again: cancellation may wake blocked selects
			}
			p := s.Pick(ps)
			var payload any
			if p.Kind == "callback" {
				name := p.Info.(string)
				var err error
				if fails[name] {
					err = fmt.Errorf("visit of %s failed", name)
				}
				payload = cbResult{err: err}
			}
			s.Release(p, payload)
		}
		out.Steps, out.MaxPar, out.Choices, out.Unknown = s.Steps, s.MaxPar, s.Choices, s.Unknown
		out.Trace = s.Trace
		// ---- checks at return
		model.mu.Lock()
		defer model.mu.Unlock()
		if out.Deadlock {
			model.problem("deadlock", "no task runnable, nothing pending, call has not returned; events: "+strings.Join(model.events, " "))
			return
		}
		if out.Livelock {
			model.problem("no-return-within-step-bound", fmt.Sprintf("%d scheduler steps, bound %d", s.Steps, budget))
			return
		}
		if !returned {
			return
		}
		if sc.Cyclic {
			if retErr == nil {
				model.problem("cycle-not-refused", "cyclic graph traversed without error")
			}
			if len(model.entered) > 0 {
				model.problem("visit-before-cycle-refusal", fmt.Sprint(model.entered))
			}
			return
		}
		if !reflect.DeepEqual(project, sc.project()) {
			model.problem("project-modified", FirstDiff(project, sc.project()))
		}
		if len(model.failed) > 0 {
			if retErr == nil {
				model.problem("visitor-error-lost", "a visit failed but the traversal returned nil")
			} else {
				ok := false
				for _, e := range model.failed {
					if errors.Is(retErr, e) || retErr.Error() == e.Error() {
						ok = true
					}
				}
				if !ok {
					model.problem("foreign-error-returned", retErr.Error())
				}
			}
			return
		}
		if cancelled {
			return // completeness is not promised under caller cancellation
		}
		if retErr != nil {
			model.problem("spurious-error", retErr.Error())
			return
		}
		for n := range model.exp {
			if model.entered[n] == 0 {
				model.problem("service-not-visited", fmt.Sprintf("%s never visited, nil returned", n))
			}
		}
		if sc.Collect {
			for n := range model.exp {
				if results[n] != "value-of-"+n {
					model.problem("collector-result-wrong", fmt.Sprintf("result[%s]=%q", n, results[n]))
				}
			}
			for n, v := range results {
				// exactly the per-service results of the supplied function: no entry, not even a zero value, for a
				// service the function was never called for
				// (a clause of C19; C13 says nothing about results: there only a non-zero value for an unvisited service counts)
				if !model.exp[n] && (v != "" || os.Getenv("VERIF_PROP") == "C19") {
					model.problem("collector-result-for-unvisited", fmt.Sprintf("result[%s]=%q although %s is outside the selection", n, v, n))
				}
			}
		}
	}
	func() {
		defer func() {
			if v := recover(); v != nil {
				out.BubbleErr = fmt.Sprint(v)
			}
		}()
		synctest.Test(t, body)
	}()
	out.Problems = model.problems
	out.Events = model.events
	out.MaxRun = model.maxRun
	out.Digest = fmt.Sprintf("%016x", er.Digest())
	if out.BubbleErr != "" && len(out.Problems) == 0 {
		out.Problems = append(out.Problems, "goroutine-leak-or-bubble-panic|"+truncate(out.BubbleErr, 200))
	}
	return out
}

var workerT *testing.T

func c13Run(c *Ctx, r *zsimrt.Run) {
	maxN := 5
	if c.Tier == "thorough" {
		maxN = 6
	}
	var sc *c13Scenario
	if r.Chance("cyclic", 1, 12) {
		sc = genCyclic(r)
	} else {
		sc = genGraph(r, maxN)
	}
	sc.ExecSeed = uint64(r.Draw("exec-seed", 1<<30)) + 1
	c13Exec(c, sc)
}

func c13Exec(c *Ctx, sc *c13Scenario) {
	out := runTraversal(workerT, sc, false)
	c.Trace(out.Digest + strings.Join(out.Events, ",") + strings.Join(out.Problems, ";"))
	c.Count("traversals", 1)
	c.Count("sched-steps", out.Steps)
	c.Count("sched-choices", out.Choices)
	c.Max("sched-steps-per-run", out.Steps)
	c.Max("max-concurrent-visits", out.MaxRun)
	if out.Unknown > 0 {
		c.Count("yields-from-unknown-goroutines", out.Unknown)
	}
	for k, v := range out.Probes {
		c.Count("probe:"+k, v)
	}
	if len(sc.Fail) > 0 {
		c.Count("fault-fired:visitor-error", 1)
	}
	if sc.CancelAt >= 0 {
		c.Count("fault-fired:caller-cancel", 1)
	}
	if sc.Cyclic {
		c.Count("probe:cyclic-graph", 1)
	}
	if out.MaxPar >= 2 {
		c.Nontrivial(out.Digest)
	}
	c.Sample(map[string]any{"scenario": sc, "events": out.Events, "steps": out.Steps, "max_parked": out.MaxPar})
	if len(out.Problems) == 0 {
		return
	}
	// report the first problem; re-run with recording for the trace
	rec := runTraversal(workerT, sc, true)
	prob := out.Problems[0]
	parts := strings.SplitN(prob, "|", 2)
	same := len(rec.Problems) > 0 && strings.SplitN(rec.Problems[0], "|", 2)[0] == parts[0]
	min := sc
	if same {
		min = c13Minimise(sc, parts[0])
		rec = runTraversal(workerT, min, true)
	}
	b, _ := json.Marshal(min)
	v := Violation{Property: "C13", Clause: parts[0], Key: parts[0], Detail: parts[1] + "\nevents: " + strings.Join(rec.Events, " "), Engine: "c13",
		Scenario: b, Trace: rec.Trace, Digest: rec.Digest, Minimised: same,
		Notes: map[string]any{"original_scenario": sc, "deterministic_rerun_same_clause": same, "all_problems": out.Problems}}
	c.Violate(v)
}

// c13Minimise shrinks the scenario while the same clause is reported: fewer
// services, fewer edges, fewer options, simpler schedule (lowest-id strategy).
func c13Minimise(sc *c13Scenario, clause string) *c13Scenario {
	fails := func(s *c13Scenario) bool {
		o := runTraversal(workerT, s, false)
		for _, p := range o.Problems {
			if strings.SplitN(p, "|", 2)[0] == clause {
				return true
			}
		}
		return false
	}
	clone := func(s *c13Scenario) *c13Scenario {
		b, _ := json.Marshal(s)
		var c c13Scenario
		_ = json.Unmarshal(b, &c)
		if c.Deps == nil {
			c.Deps = map[string][]depEdge{}
		}
		return &c
	}
	cur := clone(sc)
	budget := 300
	try := func(mut func(*c13Scenario) bool) bool {
		if budget <= 0 {
			return false
		}
		c := clone(cur)
		if !mut(c) {
			return false
		}
		budget--
		if fails(c) {
			cur = c
			return true
		}
		return false
	}
	for changed := true; changed && budget > 0; {
		changed = false
		// drop a service
		for i := range cur.Names {
			name := cur.Names[i]
			if try(func(c *c13Scenario) bool {
				if len(c.Names) <= 1 {
					return false
				}
				c.Names = append(append([]string(nil), c.Names[:i]...), c.Names[i+1:]...)
				delete(c.Deps, name)
				for k, es := range c.Deps {
					var keep []depEdge
					for _, e := range es {
						if e.To != name {
							keep = append(keep, e)
						}
					}
					c.Deps[k] = keep
				}
				var roots, fl []string
				for _, r := range c.Roots {
					if r != name {
						roots = append(roots, r)
					}
				}
				for _, f := range c.Fail {
					if f != name {
						fl = append(fl, f)
					}
				}
				c.Roots, c.Fail = roots, fl
				return true
			}) {
				changed = true
				break
			}
		}
		// drop an edge
		keys := make([]string, 0, len(cur.Deps))
		for k := range cur.Deps {
			keys = append(keys, k)
		}
		sort.Strings(keys)
	edges:
		for _, k := range keys {
			for j := range cur.Deps[k] {
				if try(func(c *c13Scenario) bool {
					c.Deps[k] = append(append([]depEdge(nil), c.Deps[k][:j]...), c.Deps[k][j+1:]...)
					return true
				}) {
					changed = true
					break edges
				}
			}
		}
		for _, m := range []func(*c13Scenario) bool{
			func(c *c13Scenario) bool { if len(c.Roots) == 0 { return false }; c.Roots = c.Roots[:len(c.Roots)-1]; return true },
			func(c *c13Scenario) bool { if len(c.Fail) == 0 { return false }; c.Fail = c.Fail[:len(c.Fail)-1]; return true },
			func(c *c13Scenario) bool { if c.CancelAt < 0 { return false }; c.CancelAt = -1; return true },
			func(c *c13Scenario) bool { if !c.Collect { return false }; c.Collect = false; return true },
			func(c *c13Scenario) bool { if len(c.Disabled) == 0 { return false }; c.Disabled = nil; return true },
			func(c *c13Scenario) bool { if c.Limit == 0 { return false }; c.Limit--; return true },
			func(c *c13Scenario) bool { if c.Strategy == zsimrt.StratLowest { return false }; c.Strategy = zsimrt.StratLowest; return true },
			func(c *c13Scenario) bool { if c.Policy == zsimrt.OrdSorted { return false }; c.Policy = zsimrt.OrdSorted; return true },
		} {
			if try(m) {
				changed = true
			}
		}
	}
	return cur
}

func c13Replay(c *Ctx, v *Violation) {
	var sc c13Scenario
	if err := json.Unmarshal(v.Scenario, &sc); err != nil {
		c.Count("replay-bad-file", 1)
		return
	}
	if sc.Deps == nil {
		sc.Deps = map[string][]depEdge{}
	}
	out := runTraversal(workerT, &sc, true)
	c.Count("replay-digest-match", map[bool]int{true: 1, false: 0}[out.Digest == v.Digest])
	for _, p := range out.Problems {
		parts := strings.SplitN(p, "|", 2)
		c.Violate(Violation{Property: "C13", Clause: parts[0], Key: parts[0], Detail: parts[1], Engine: "c13", Trace: out.Trace, Digest: out.Digest})
	}
}
