package sim

import (
	"encoding/json"
	"fmt"
	"reflect"
	"sort"
	"strings"

	"github.com/compose-spec/compose-go/v2/types"
	"github.com/compose-spec/compose-go/v2/zsimrt"
)

func init() {
	engines["c15"] = &engine{prop: "C15", run: c15Run, replay: c15Replay}
}

// c15Svc is the generated description of one service.
type c15Svc struct {
	Name     string    `json:"name"`
	Profiles []string  `json:"profiles,omitempty"`
	Deps     []depEdge `json:"deps,omitempty"`
	Networks []string  `json:"networks,omitempty"`
	Volumes  []string  `json:"volumes,omitempty"`
	Secrets  []string  `json:"secrets,omitempty"`
	BuildSec []string  `json:"build_secrets,omitempty"`
	Configs  []string  `json:"configs,omitempty"`
	// Decoys: resource names that occur in the service without being references to the resource: the source of
	// a bind / tmpfs / npipe mount, i.e. a relative path that happens to be spelled like a volume key
	Decoys []string `json:"decoys,omitempty"`
}

type c15Step struct {
	Op     string   `json:"op"`
	Handle int      `json:"handle"`
	Args   []string `json:"args,omitempty"`
}

type c15Scenario struct {
	Services  []c15Svc  `json:"services"`
	Resources []string  `json:"resources"` // names declared for each of networks/volumes/secrets/configs
	Profiles  []string  `json:"initial_profiles,omitempty"`
	Steps     []c15Step `json:"steps"`
	ExecSeed  uint64    `json:"exec_seed"`
}

var c15Ops = []string{"WithProfiles", "WithServicesEnabled", "WithServicesDisabled", "WithSelectedServices", "WithSelectedServices/dependents",
	"WithSelectedServices/ignore", "WithoutUnnecessaryResources"}

var profPool = []string{"dev", "debug", "tools"}

func genC15(r *zsimrt.Run) *c15Scenario {
	sc := &c15Scenario{Resources: []string{"r0", "r1", "r2"}}
	n := 1 + r.Draw("n", 6)
	order := make([]int, n)
	for i := range order {
		order[i] = i
	}
	for i := 0; i < n-1; i++ {
		j := i + r.Draw("topo", n-i)
		order[i], order[j] = order[j], order[i]
	}
	svcs := make([]c15Svc, n)
	for i := 0; i < n; i++ {
		s := c15Svc{Name: fmt.Sprintf("s%d", i)}
		if r.Chance("has-profile", 2, 5) {
			k := 1 + r.Draw("nprof", 2)
			off := r.Draw("prof-off", len(profPool))
			for j := 0; j < k; j++ {
				s.Profiles = append(s.Profiles, profPool[(off+j)%len(profPool)])
			}
		}
		for _, kind := range []*[]string{&s.Networks, &s.Volumes, &s.Secrets, &s.BuildSec, &s.Configs} {
			if r.Chance("uses-res", 1, 2) {
				*kind = append(*kind, sc.Resources[r.Draw("res", len(sc.Resources))])
			}
		}
		if r.Chance("decoy", 1, 3) {
			s.Decoys = append(s.Decoys, sc.Resources[r.Draw("decoy-res", len(sc.Resources))])
		}
		svcs[i] = s
	}
	// edges follow the drawn topological order (acyclic)
	p := 1 + r.Draw("edge-p", 3)
	for a := 1; a < n; a++ {
		for b := 0; b < a; b++ {
			if r.Chance("edge", p, 5) {
				svcs[order[a]].Deps = append(svcs[order[a]].Deps, depEdge{To: svcs[order[b]].Name, Required: !r.Chance("optional", 1, 3)})
			}
		}
	}
	sc.Services = svcs
	if r.Chance("initial-profiles", 1, 2) {
		sc.Profiles = []string{profPool[r.Draw("init-prof", len(profPool))]}
	}
	steps := 1 + r.Draw("nsteps", 5)
	handles := 1
	argPool := func() string {
		k := r.Draw("arg", n+1)
		if k == n {
			return "nosuch"
		}
		return fmt.Sprintf("s%d", k)
	}
	for i := 0; i < steps; i++ {
		st := c15Step{Op: c15Ops[r.Draw("op", len(c15Ops))], Handle: r.Draw("handle", handles)}
		switch strings.SplitN(st.Op, "/", 2)[0] {
		case "WithProfiles":
			switch r.Draw("profiles", 5) {
			case 0:
			case 1:
				st.Args = []string{"*"}
			case 2:
				st.Args = []string{profPool[r.Draw("p1", 3)]}
			case 3:
				st.Args = []string{profPool[r.Draw("p1", 3)], profPool[r.Draw("p2", 3)]}
			default:
				st.Args = []string{"unknown-profile", "*"}
			}
		case "WithServicesEnabled", "WithServicesDisabled", "WithSelectedServices":
			k := r.Draw("nargs", 4)
			for j := 0; j < k; j++ {
				st.Args = append(st.Args, argPool())
			}
		}
		sc.Steps = append(sc.Steps, st)
		handles++
	}
	sc.ExecSeed = uint64(1 + r.Draw("exec-seed", 1<<30))
	return sc
}

func (sc *c15Scenario) project() *types.Project {
	p := &types.Project{Name: "sim", WorkingDir: "/proj", Services: types.Services{}, DisabledServices: types.Services{},
		Networks: types.Networks{}, Volumes: types.Volumes{}, Secrets: types.Secrets{}, Configs: types.Configs{}}
	for _, r := range sc.Resources {
		p.Networks[r] = types.NetworkConfig{Name: "net_" + r, Labels: types.Labels{"r": r}}
		p.Volumes[r] = types.VolumeConfig{Name: "vol_" + r}
		p.Secrets[r] = types.SecretConfig{Name: "sec_" + r, File: "/s/" + r}
		p.Configs[r] = types.ConfigObjConfig{Name: "cfg_" + r, File: "/c/" + r}
	}
	for _, s := range sc.Services {
		svc := types.ServiceConfig{Name: s.Name, Image: "img", Profiles: append([]string(nil), s.Profiles...), Labels: types.Labels{"id": s.Name}}
		if len(s.Deps) > 0 {
			svc.DependsOn = types.DependsOnConfig{}
			for _, e := range s.Deps {
				svc.DependsOn[e.To] = types.ServiceDependency{Condition: types.ServiceConditionStarted, Required: e.Required}
			}
		}
		if len(s.Networks) > 0 {
			svc.Networks = map[string]*types.ServiceNetworkConfig{}
			for _, n := range s.Networks {
				svc.Networks[n] = nil
			}
		}
		for _, v := range s.Volumes {
			svc.Volumes = append(svc.Volumes, types.ServiceVolumeConfig{Type: types.VolumeTypeVolume, Source: v, Target: "/data"})
		}
		svc.Volumes = append(svc.Volumes, types.ServiceVolumeConfig{Type: types.VolumeTypeBind, Source: "/host", Target: "/bind"})
		for i, d := range s.Decoys {
			typ := []string{types.VolumeTypeBind, types.VolumeTypeTmpfs, types.VolumeTypeNamedPipe}[(i+len(s.Name)+len(d))%3]
			svc.Volumes = append(svc.Volumes, types.ServiceVolumeConfig{Type: typ, Source: d, Target: "/decoy" + d})
			svc.Volumes = append(svc.Volumes, types.ServiceVolumeConfig{Type: types.VolumeTypeVolume, Target: "/anon" + d}) // anonymous
		}
		for _, v := range s.Secrets {
			svc.Secrets = append(svc.Secrets, types.ServiceSecretConfig{Source: v})
		}
		if len(s.BuildSec) > 0 {
			svc.Build = &types.BuildConfig{Context: "."}
			for _, v := range s.BuildSec {
				svc.Build.Secrets = append(svc.Build.Secrets, types.ServiceSecretConfig{Source: v})
			}
		}
		for _, v := range s.Configs {
			svc.Configs = append(svc.Configs, types.ServiceConfigObjConfig{Source: v})
		}
		p.Services[s.Name] = svc
	}
	return p
}

// ---- the set-based reference model

type c15State struct {
	E, D     map[string]bool
	P        []string
	Deps     map[string]map[string]bool // surviving edges: from -> to -> required
	Res      map[string]map[string]bool // kind -> declared names
}

func (m *c15State) clone() *c15State {
	c := &c15State{E: map[string]bool{}, D: map[string]bool{}, P: append([]string(nil), m.P...), Deps: map[string]map[string]bool{}, Res: map[string]map[string]bool{}}
	for k := range m.E {
		c.E[k] = true
	}
	for k := range m.D {
		c.D[k] = true
	}
	for k, v := range m.Deps {
		c.Deps[k] = map[string]bool{}
		for t, r := range v {
			c.Deps[k][t] = r
		}
	}
	for k, v := range m.Res {
		c.Res[k] = map[string]bool{}
		for t := range v {
			c.Res[k][t] = true
		}
	}
	return c
}

func (sc *c15Scenario) svc(name string) *c15Svc {
	for i := range sc.Services {
		if sc.Services[i].Name == name {
			return &sc.Services[i]
		}
	}
	return nil
}

func hasProfile(s *c15Svc, ps []string) bool {
	if len(s.Profiles) == 0 {
		return true
	}
	for _, p := range ps {
		if p == "*" {
			return true
		}
		for _, q := range s.Profiles {
			if p == q {
				return true
			}
		}
	}
	return false
}

func setOf(m map[string]bool) string {
	ks := make([]string, 0, len(m))
	for k := range m {
		ks = append(ks, k)
	}
	sort.Strings(ks)
	return "{" + strings.Join(ks, ",") + "}"
}

// apply computes the expected state, or expectErr=true when the statement lets the operation fail,
// or mayErr=true when either outcome is acceptable.
func (sc *c15Scenario) apply(m *c15State, st c15Step) (next *c15State, expectErr, mayErr bool) {
	n := m.clone()
	repartition := func(ps []string) {
		all := map[string]bool{}
		for k := range m.E {
			all[k] = true
		}
		for k := range m.D {
			all[k] = true
		}
		n.E, n.D = map[string]bool{}, map[string]bool{}
		for k := range all {
			if hasProfile(sc.svc(k), ps) {
				n.E[k] = true
			} else {
				n.D[k] = true
			}
		}
	}
	switch strings.SplitN(st.Op, "/", 2)[0] {
	case "WithProfiles":
		repartition(st.Args)
		n.P = append([]string(nil), st.Args...)
	case "WithServicesEnabled":
		if len(st.Args) == 0 {
			return n, false, false
		}
		ps := append([]string(nil), m.P...)
		for _, a := range st.Args {
			if m.E[a] {
				continue
			}
			if m.D[a] {
				ps = append(ps, sc.svc(a).Profiles...)
			}
		}
		repartition(ps)
		n.P = ps
	case "WithServicesDisabled":
		for _, a := range st.Args {
			for from := range n.E {
				delete(n.Deps[from], a)
			}
			if n.E[a] {
				delete(n.E, a)
				n.D[a] = true
			}
		}
	case "WithSelectedServices":
		if len(st.Args) == 0 {
			return n, false, false
		}
		for _, a := range st.Args {
			if !m.E[a] {
				return nil, true, false // a named service that is not enabled cannot be selected
			}
		}
		sel := map[string]bool{}
		var walk func(s string) bool
		policy := "deps"
		if strings.HasSuffix(st.Op, "/dependents") {
			policy = "dependents"
		} else if strings.HasSuffix(st.Op, "/ignore") {
			policy = "ignore"
		}
		walk = func(s string) bool {
			if sel[s] {
				return true
			}
			sel[s] = true
			switch policy {
			case "deps":
				for t, req := range m.Deps[s] {
					if !m.E[t] {
						if req {
							return false // required dependency that is not enabled
						}
						continue
					}
					if !walk(t) {
						return false
					}
				}
			case "dependents":
				for from := range m.E {
					if _, ok := m.Deps[from][s]; ok {
						if !walk(from) {
							return false
						}
					}
				}
			}
			return true
		}
		for _, a := range st.Args {
			if !walk(a) {
				return nil, true, false
			}
		}
		for k := range m.E {
			if !sel[k] {
				delete(n.E, k)
				n.D[k] = true
			}
		}
		for from := range n.E {
			for t := range n.Deps[from] {
				if !sel[t] {
					delete(n.Deps[from], t)
				}
			}
		}
	case "WithoutUnnecessaryResources":
		used := map[string]map[string]bool{"networks": {}, "volumes": {}, "secrets": {}, "configs": {}}
		for k := range m.E {
			s := sc.svc(k)
			for _, x := range s.Networks {
				used["networks"][x] = true
			}
			for _, x := range s.Volumes {
				used["volumes"][x] = true
			}
			for _, x := range s.Secrets {
				used["secrets"][x] = true
			}
			for _, x := range s.BuildSec {
				used["secrets"][x] = true
			}
			for _, x := range s.Configs {
				used["configs"][x] = true
			}
		}
		for kind, decl := range m.Res {
			n.Res[kind] = map[string]bool{}
			for x := range decl {
				if used[kind][x] {
					n.Res[kind][x] = true
				}
			}
		}
	}
	return n, false, false
}

// observe extracts the model-level state of a real project.
func c15Observe(p *types.Project) *c15State {
	s := &c15State{E: map[string]bool{}, D: map[string]bool{}, Deps: map[string]map[string]bool{}, Res: map[string]map[string]bool{"networks": {}, "volumes": {}, "secrets": {}, "configs": {}}}
	for k, v := range p.Services {
		s.E[k] = true
		s.Deps[k] = map[string]bool{}
		for t, d := range v.DependsOn {
			s.Deps[k][t] = d.Required
		}
	}
	for k, v := range p.DisabledServices {
		s.D[k] = true
		s.Deps[k] = map[string]bool{}
		for t, d := range v.DependsOn {
			s.Deps[k][t] = d.Required
		}
	}
	s.P = append([]string(nil), p.Profiles...)
	for k := range p.Networks {
		s.Res["networks"][k] = true
	}
	for k := range p.Volumes {
		s.Res["volumes"][k] = true
	}
	for k := range p.Secrets {
		s.Res["secrets"][k] = true
	}
	for k := range p.Configs {
		s.Res["configs"][k] = true
	}
	return s
}

func depsString(d map[string]map[string]bool, only map[string]bool) string {
	var out []string
	for from, ts := range d {
		if !only[from] {
			continue
		}
		for t := range ts {
			out = append(out, from+"->"+t)
		}
	}
	sort.Strings(out)
	return strings.Join(out, ",")
}

type c15Result struct {
	Problems []c14Problem
	Log      []string
	Applied  int
	Errors   int
	Digest   string
}

func c15Call(p *types.Project, st c15Step) (*types.Project, error) {
	switch strings.SplitN(st.Op, "/", 2)[0] {
	case "WithProfiles":
		return p.WithProfiles(append([]string(nil), st.Args...))
	case "WithServicesEnabled":
		return p.WithServicesEnabled(st.Args...)
	case "WithServicesDisabled":
		return p.WithServicesDisabled(st.Args...), nil
	case "WithSelectedServices":
		var opts []types.DependencyOption
		if strings.HasSuffix(st.Op, "/dependents") {
			opts = append(opts, types.IncludeDependents)
		} else if strings.HasSuffix(st.Op, "/ignore") {
			opts = append(opts, types.IgnoreDependencies)
		}
		return p.WithSelectedServices(append([]string(nil), st.Args...), opts...)
	case "WithoutUnnecessaryResources":
		return p.WithoutUnnecessaryResources(), nil
	}
	return nil, fmt.Errorf("unknown op")
}

func runC15(sc *c15Scenario) *c15Result {
	out := &c15Result{}
	er := zsimrt.NewRun(sc.ExecSeed)
	er.FS = zsimrt.NewFS()
	zsimrt.Activate(er)
	defer zsimrt.Deactivate()
	problem := func(c, d string) { out.Problems = append(out.Problems, c14Problem{c, d}) }
	root := sc.project()
	handles := []*types.Project{root}
	models := []*c15State{c15Observe(root)}
	if len(sc.Profiles) > 0 || true {
		// the pool starts from the project as a load would deliver it: profiles applied
		p0, err := root.WithProfiles(append([]string(nil), sc.Profiles...))
		if err == nil {
			m0, _, _ := sc.apply(models[0], c15Step{Op: "WithProfiles", Args: sc.Profiles})
			handles[0], models[0] = p0, m0
		}
	}
	for i, st := range sc.Steps {
		if st.Handle >= len(handles) {
			st.Handle = len(handles) - 1
		}
		recv, m := handles[st.Handle], models[st.Handle]
		base := strings.SplitN(st.Op, "/", 2)[0]
		want, expectErr, _ := sc.apply(m, st)
		// executed three times under different map-order schedules: a function of receiver and arguments
		var results [3]*types.Project
		var errs [3]error
		for k := 0; k < 3; k++ {
			er.ResetPolicies()
			er.SetPolicy([]int{zsimrt.OrdSorted, zsimrt.OrdReverse, -1}[k])
			results[k], errs[k] = c15Call(recv, st)
		}
		msg := fmt.Sprintf("step %d: %s(%v) on handle #%d E=%s D=%s", i, st.Op, st.Args, st.Handle, setOf(m.E), setOf(m.D))
		if errs[0] != nil {
			msg += " -> error: " + truncate(errs[0].Error(), 80)
			out.Errors++
		}
		out.Log = append(out.Log, msg)
		for k := 1; k < 3; k++ {
			if (errs[k] == nil) != (errs[0] == nil) {
				problem("not-repeatable:"+base, fmt.Sprintf("%s: error on one execution, success on another (%v vs %v)", st.Op, errs[0], errs[k]))
			} else if errs[0] == nil && !reflect.DeepEqual(results[0], results[k]) {
				problem("not-repeatable:"+base, fmt.Sprintf("%s repeated on the same project gave different results: %s", st.Op, FirstDiff(results[0], results[k])))
			}
		}
		res, err := results[0], errs[0]
		if expectErr {
			if err == nil {
				// accepted by the library although the model expected a refusal
				problem("refusal-expected:"+base, fmt.Sprintf("%s(%v) on E=%s D=%s succeeded; a named service that is not enabled, or a required dependency that is not enabled, has to be reported", st.Op, st.Args, setOf(m.E), setOf(m.D)))
				got := c15Observe(res)
				all := map[string]bool{}
				for k := range m.E {
					all[k] = true
				}
				for k := range m.D {
					all[k] = true
				}
				c15Conservation(problem, base, all, got)
				handles = append(handles, res)
				models = append(models, got)
			}
			continue
		}
		if err != nil {
			problem("unexpected-error:"+base, fmt.Sprintf("%s(%v) failed: %v", st.Op, st.Args, err))
			continue
		}
		out.Applied++
		got := c15Observe(res)
		all := map[string]bool{}
		for k := range m.E {
			all[k] = true
		}
		for k := range m.D {
			all[k] = true
		}
		c15Conservation(problem, base, all, got)
		if setOf(got.E) != setOf(want.E) {
			problem("enabled-set-wrong:"+base, fmt.Sprintf("%s(%v): enabled %s, expected %s", st.Op, st.Args, setOf(got.E), setOf(want.E)))
		}
		if setOf(got.D) != setOf(want.D) {
			problem("disabled-set-wrong:"+base, fmt.Sprintf("%s(%v): disabled %s, expected %s", st.Op, st.Args, setOf(got.D), setOf(want.D)))
		}
		if base == "WithProfiles" || base == "WithServicesEnabled" {
			gp, wp := map[string]bool{}, map[string]bool{}
			for _, p := range got.P {
				gp[p] = true
			}
			for _, p := range want.P {
				wp[p] = true
			}
			if setOf(gp) != setOf(wp) {
				problem("active-profiles-wrong:"+base, fmt.Sprintf("%s(%v): profiles %v, expected %v", st.Op, st.Args, got.P, want.P))
			}
		}
		if base == "WithServicesDisabled" || base == "WithSelectedServices" {
			// remaining services never depend on a removed one
			for from := range got.E {
				for t := range got.Deps[from] {
					removedNow := m.E[t] && !got.E[t]
					if !got.E[t] && (removedNow || contains(st.Args, t)) {
						problem("dangling-dependency:"+base, fmt.Sprintf("%s(%v): %s still depends on removed service %s", st.Op, st.Args, from, t))
					}
				}
			}
			if depsString(got.Deps, got.E) != depsString(want.Deps, want.E) {
				problem("dependency-edges-wrong:"+base, fmt.Sprintf("%s(%v): edges %s expected %s", st.Op, st.Args, depsString(got.Deps, got.E), depsString(want.Deps, want.E)))
			}
		}
		for _, kind := range []string{"networks", "volumes", "secrets", "configs"} {
			if setOf(got.Res[kind]) != setOf(want.Res[kind]) {
				problem("resources-wrong:"+base+":"+kind, fmt.Sprintf("%s: %s %s expected %s", st.Op, kind, setOf(got.Res[kind]), setOf(want.Res[kind])))
			}
		}
		// every service value is carried (only depends_on may shrink)
		for name, s := range res.AllServices() {
			o := recv.AllServices()[name]
			s.DependsOn, o.DependsOn = nil, nil
			s.Environment, o.Environment = nil, nil
			if !reflect.DeepEqual(s, o) {
				problem("service-altered:"+base, fmt.Sprintf("%s: service %s changed at %s", st.Op, name, FirstDiff(o, s)))
			}
		}
		// a service that is (or becomes) disabled is set aside, not edited: it carries the dependencies it had
		// (only services that REMAIN lose their edges to removed ones)
		if base == "WithServicesDisabled" || base == "WithSelectedServices" || base == "WithProfiles" || base == "WithServicesEnabled" {
			for k := range got.D {
				if fmt.Sprint(depKeys(got.Deps[k])) != fmt.Sprint(depKeys(m.Deps[k])) {
					problem("disabled-service-edited:"+base, fmt.Sprintf("%s(%v): disabled service %s had dependencies %v, now %v", st.Op, st.Args, k, depKeys(m.Deps[k]), depKeys(got.Deps[k])))
				}
			}
		}
		handles = append(handles, res)
		want.P = got.P
		// adopt what is observed for disabled services as the baseline for later steps (one report per deviation)
		for k := range got.D {
			want.Deps[k] = got.Deps[k]
		}
		models = append(models, want)
	}
	out.Digest = fmt.Sprintf("%016x", er.Digest())
	return out
}

func contains(xs []string, x string) bool {
	for _, y := range xs {
		if x == y {
			return true
		}
	}
	return false
}

func c15Conservation(problem func(c, d string), base string, all map[string]bool, got *c15State) {
	for k := range got.E {
		if got.D[k] {
			problem("service-duplicated:"+base, k+" is both enabled and disabled")
		}
	}
	union := map[string]bool{}
	for k := range got.E {
		union[k] = true
	}
	for k := range got.D {
		union[k] = true
	}
	if setOf(union) != setOf(all) {
		problem("service-lost-or-invented:"+base, fmt.Sprintf("services before %s, after %s", setOf(all), setOf(union)))
	}
}

func c15Run(c *Ctx, r *zsimrt.Run) {
	sc := genC15(r)
	c15Exec(c, sc, true)
}

func c15Exec(c *Ctx, sc *c15Scenario, minimise bool) {
	out := runC15(sc)
	c.Trace(out.Digest + strings.Join(out.Log, "\n") + fmt.Sprint(len(out.Problems)))
	c.Count("histories", 1)
	c.Count("operations-applied", out.Applied)
	c.Count("operation-errors", out.Errors)
	for _, st := range sc.Steps {
		c.Count("op:"+st.Op, 1)
	}
	if out.Applied >= 2 {
		b, _ := json.Marshal(sc)
		c.Nontrivial(fmt.Sprintf("%x", fnvHash(b)))
	}
	c.Sample(map[string]any{"scenario": sc, "log": out.Log})
	if len(out.Problems) == 0 {
		return
	}
	p := out.Problems[0]
	min := sc
	if minimise {
		min = c15Minimise(sc, p.clause)
		out = runC15(min)
		for _, q := range out.Problems {
			if q.clause == p.clause {
				p = q
				break
			}
		}
	}
	b, _ := json.Marshal(min)
	c.Violate(Violation{Property: "C15", Clause: strings.SplitN(p.clause, ":", 2)[0], Key: p.clause, Detail: p.detail + "\nhistory:\n  " + strings.Join(out.Log, "\n  "), Engine: "c15",
		Scenario: b, Minimised: minimise, Digest: out.Digest})
}

func fnvHash(b []byte) uint64 {
	h := uint64(14695981039346656037)
	for _, c := range b {
		h ^= uint64(c)
		h *= 1099511628211
	}
	return h
}

func c15Minimise(sc *c15Scenario, clause string) *c15Scenario {
	fails := func(s *c15Scenario) bool {
		for _, p := range runC15(s).Problems {
			if p.clause == clause {
				return true
			}
		}
		return false
	}
	clone := func(s *c15Scenario) *c15Scenario {
		b, _ := json.Marshal(s)
		var c c15Scenario
		_ = json.Unmarshal(b, &c)
		return &c
	}
	cur := clone(sc)
	budget := 300
	for changed := true; changed && budget > 0; {
		changed = false
		for i := range cur.Steps {
			t := clone(cur)
			t.Steps = append(t.Steps[:i], t.Steps[i+1:]...)
			budget--
			if len(t.Steps) > 0 && fails(t) {
				cur, changed = t, true
				break
			}
		}
		for i := range cur.Services {
			t := clone(cur)
			name := t.Services[i].Name
			t.Services = append(t.Services[:i], t.Services[i+1:]...)
			for j := range t.Services {
				var keep []depEdge
				for _, e := range t.Services[j].Deps {
					if e.To != name {
						keep = append(keep, e)
					}
				}
				t.Services[j].Deps = keep
			}
			budget--
			if len(t.Services) > 0 && fails(t) {
				cur, changed = t, true
				break
			}
		}
		for i := range cur.Services {
			for j := range cur.Services[i].Deps {
				t := clone(cur)
				t.Services[i].Deps = append(t.Services[i].Deps[:j], t.Services[i].Deps[j+1:]...)
				budget--
				if fails(t) {
					cur, changed = t, true
					break
				}
			}
			for _, f := range []func(*c15Svc){func(s *c15Svc) { s.Networks = nil }, func(s *c15Svc) { s.Volumes = nil }, func(s *c15Svc) { s.Secrets = nil },
				func(s *c15Svc) { s.BuildSec = nil }, func(s *c15Svc) { s.Configs = nil }, func(s *c15Svc) {
					if len(s.Profiles) > 0 {
						s.Profiles = s.Profiles[:len(s.Profiles)-1]
					}
				}} {
				t := clone(cur)
				before, _ := json.Marshal(t.Services[i])
				f(&t.Services[i])
				after, _ := json.Marshal(t.Services[i])
				if string(before) == string(after) {
					continue
				}
				budget--
				if fails(t) {
					cur, changed = t, true
				}
			}
		}
		for i := range cur.Steps {
			if len(cur.Steps[i].Args) > 0 {
				t := clone(cur)
				t.Steps[i].Args = t.Steps[i].Args[:len(t.Steps[i].Args)-1]
				budget--
				if fails(t) {
					cur, changed = t, true
				}
			}
		}
	}
	return cur
}

func c15Replay(c *Ctx, v *Violation) {
	var sc c15Scenario
	if err := json.Unmarshal(v.Scenario, &sc); err != nil {
		c.Count("replay-bad-file", 1)
		return
	}
	out := runC15(&sc)
	for _, p := range out.Problems {
		c.Violate(Violation{Property: "C15", Clause: strings.SplitN(p.clause, ":", 2)[0], Key: p.clause, Detail: p.detail, Engine: "c15", Digest: out.Digest})
	}
}

func depKeys(m map[string]bool) []string {
	ks := make([]string, 0, len(m))
	for k, req := range m {
		ks = append(ks, fmt.Sprintf("%s:%v", k, req))
	}
	sort.Strings(ks)
	return ks
}
