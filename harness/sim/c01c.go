package sim

import (
	"encoding/json"
	"fmt"
	"sort"
	"strings"
	"sync"

	"github.com/compose-spec/compose-go/v2/schema"
	"github.com/compose-spec/compose-go/v2/zsimrt"
)

// Class C of C01: every attribute path of the Compose schema x every YAML node
// kind, placed in a single file / an override / an extends base / an included
// file, under several option sets. The inputs are enumerated (thorough) or
// sampled by the seeded choice source (quick); the executor, budgets and oracle
// are those of the simulator.

func init() {
	engines["c01c"] = &engine{prop: "C01", run: c01cRun, replay: c01cReplay}
}

type schemaPath struct {
	Root string   // "services", "networks", "volumes", "secrets", "configs", "" (top-level key)
	Segs []string // below the resource entry; "[]" = list element, "*" = arbitrary key
	Odd  bool     // the resource entry is named "odd name!": the schema's patternProperties do not constrain it
}

func (p schemaPath) String() string {
	if p.Odd {
		return p.Root + "~odd." + strings.Join(p.Segs, ".")
	}
	return p.Root + "." + strings.Join(p.Segs, ".")
}

var (
	schemaOnce  sync.Once
	schemaPaths []schemaPath
)

func loadSchemaPaths() []schemaPath {
	schemaOnce.Do(func() {
		var doc map[string]any
		if err := json.Unmarshal([]byte(schema.Schema), &doc); err != nil {
			panic(err)
		}
		defs, _ := doc["definitions"].(map[string]any)
		seen := map[string]bool{}
		var walk func(root string, node map[string]any, segs []string, depth int, refs map[string]int)
		add := func(root string, segs []string) {
			p := schemaPath{Root: root, Segs: append([]string(nil), segs...)}
			if !seen[p.String()] {
				seen[p.String()] = true
				schemaPaths = append(schemaPaths, p)
			}
		}
		walk = func(root string, node map[string]any, segs []string, depth int, refs map[string]int) {
			if node == nil || depth > 5 {
				return
			}
			if ref, ok := node["$ref"].(string); ok {
				name := strings.TrimPrefix(ref, "#/definitions/")
				if refs[name] >= 2 {
					return
				}
				refs2 := map[string]int{}
				for k, v := range refs {
					refs2[k] = v
				}
				refs2[name]++
				if d, ok := defs[name].(map[string]any); ok {
					walk(root, d, segs, depth, refs2)
				}
				return
			}
			for _, comb := range []string{"oneOf", "anyOf", "allOf"} {
				if alts, ok := node[comb].([]any); ok {
					for _, a := range alts {
						if am, ok := a.(map[string]any); ok {
							walk(root, am, segs, depth, refs)
						}
					}
				}
			}
			if props, ok := node["properties"].(map[string]any); ok {
				keys := make([]string, 0, len(props))
				for k := range props {
					keys = append(keys, k)
				}
				sort.Strings(keys)
				for _, k := range keys {
					s2 := append(append([]string(nil), segs...), k)
					add(root, s2)
					if pm, ok := props[k].(map[string]any); ok {
						walk(root, pm, s2, depth+1, refs)
					}
				}
			}
			if pp, ok := node["patternProperties"].(map[string]any); ok {
				for pat, v := range pp {
					if strings.HasPrefix(pat, "^x-") {
						continue
					}
					s2 := append(append([]string(nil), segs...), "*")
					add(root, s2)
					if vm, ok := v.(map[string]any); ok {
						walk(root, vm, s2, depth+1, refs)
					}
				}
			}
			if ap, ok := node["additionalProperties"].(map[string]any); ok {
				s2 := append(append([]string(nil), segs...), "*")
				add(root, s2)
				walk(root, ap, s2, depth+1, refs)
			}
			if it, ok := node["items"].(map[string]any); ok {
				s2 := append(append([]string(nil), segs...), "[]")
				add(root, s2)
				walk(root, it, s2, depth+1, refs)
			}
		}
		for _, rd := range [][2]string{{"services", "service"}, {"networks", "network"}, {"volumes", "volume"}, {"secrets", "secret"}, {"configs", "config"}} {
			add(rd[0], nil) // the resource entry itself
			walk(rd[0], defs[rd[1]].(map[string]any), nil, 0, map[string]int{})
			// the same entry under a name the schema's name pattern does not match
			odd := schemaPath{Root: rd[0], Odd: true}
			seen[odd.String()] = true
			schemaPaths = append(schemaPaths, odd)
		}
		for _, top := range []string{"version", "name", "include", "services", "networks", "volumes", "secrets", "configs"} {
			add("", []string{top})
		}
		add("", []string{"<document>"}) // the document node itself
		walk("", map[string]any{"properties": map[string]any{"include": (doc["properties"].(map[string]any))["include"]}}, nil, 0, map[string]int{})
		sort.Slice(schemaPaths, func(i, j int) bool { return schemaPaths[i].String() < schemaPaths[j].String() })
	})
	return schemaPaths
}

var nodeKinds = []string{"null", "bool", "int", "float", "string", "empty-list", "list-str", "list-map", "empty-map", "map", "reset", "override-map", "override-list", "override-str",
	// scalars yaml.v3 does not decode to a string although a JSON schema sees one, and collections nested where scalars are expected
	"timestamp", "list-timestamp", "list-list", "map-list"}

func kindNode(k string) *Y {
	switch k {
	case "null":
		return Null()
	case "bool":
		return Bool(true)
	case "int":
		return Int(42)
	case "float":
		return Raw("1.5")
	case "string":
		return Str("foo")
	case "empty-list":
		return Seq()
	case "list-str":
		return StrSeq("a", "b=c")
	case "list-map":
		return Seq(Map().Set("k", Str("v")))
	case "empty-map":
		return Map()
	case "timestamp":
		return Raw("2001-12-14")
	case "list-timestamp":
		return Seq(Raw("2001-12-14"), Str("a"))
	case "list-list":
		return Seq(StrSeq("a"), StrSeq("b"))
	case "map-list":
		return Map().Set("k", StrSeq("a")).Set("driver", StrSeq("a")).Set("name", StrSeq("a"))
	case "reset":
		return &Y{S: "null", Raw: true, Tag: "!reset"}
	case "override-map":
		m := Map().Set("k", Str("v"))
		m.Tag = "!override"
		return m
	case "override-list":
		l := StrSeq("a", "b")
		l.Tag = "!override"
		return l
	case "override-str":
		return &Y{S: "foo", Tag: "!override"}
	}
	return Map().Set("k", Str("v")).Set("n", Int(1))
}

var placements = []string{"single", "override", "extends-base", "included",
	// the same confusing value on BOTH sides of a merge: two files, or an extending service and its base
	"both-files", "extends-both",
	// the confusing value in the base (another file), a valid value for the same attribute in the extending service
	"extends-valid-child",
	// the same inside ONE file: a base of the same file is merged raw, before any transformation has looked at it
	"extends-same-file"}

var optSets = []LoadOpts{
	{},
	{SkipValidation: true},
	{SkipNormalization: true},
	{SkipValidation: true, SkipConsistencyCheck: true},
	{SkipInterpolation: true, NoResolvePaths: true},
	{SkipValidation: true, SkipDefaultValues: true, SkipNormalization: true},
	{SkipExtends: true, SkipInclude: true},
	{SkipValidation: true, SkipResolveEnvironment: true, NoResolvePaths: true, ConvertWindowsPaths: true},
}

type c01cCase struct {
	Path      string `json:"path"`
	Kind      string `json:"kind"`
	Placement string `json:"placement"`
	OptSet    int    `json:"opt_set"`
	Entry     string `json:"entry,omitempty"`
}

// buildConfusion places node at path inside a minimal valid document.
func buildConfusion(p schemaPath, node *Y) *Y {
	doc := Map()
	if p.Root == "" && len(p.Segs) == 1 && p.Segs[0] == "<document>" {
		// the whole document is the confusing node (tags included)
		if node.Kind == 1 {
			node.Set("services", Map().Set("svc", Map().Set("image", Str("img"))))
		}
		return node
	}
	if p.Root == "" {
		doc.Set("services", Map().Set("svc", Map().Set("image", Str("img"))))
		setPath(doc, p.Segs, node)
		return doc
	}
	entry := Map()
	if p.Root == "services" {
		entry.Set("image", Str("img"))
	}
	doc.Set("services", Map().Set("svc", Map().Set("image", Str("img"))))
	if len(p.Segs) == 0 {
		// the resource entry itself has the confusing kind
		res := doc.Get(p.Root)
		if res == nil {
			res = Map()
			doc.Set(p.Root, res)
		}
		if p.Odd {
			res.Set("odd name!", node)
		} else {
			res.Set("target", node)
		}
		return doc
	}
	setPath(entry, p.Segs, node)
	res := doc.Get(p.Root)
	if res == nil {
		res = Map()
		doc.Set(p.Root, res)
	}
	name := "target"
	if p.Root == "services" {
		name = "svc"
	}
	res.Set(name, entry)
	return doc
}

func setPath(m *Y, segs []string, node *Y) {
	cur := m
	for i, s := range segs {
		last := i == len(segs)-1
		key := s
		if s == "*" {
			key = "anykey"
		}
		if s == "[]" {
			// cur must be a sequence
			if last {
				cur.Kind = 2
				cur.Keys = nil
				cur.Vals = []*Y{node}
				return
			}
			cur.Kind = 2
			cur.Keys = nil
			next := Map()
			cur.Vals = []*Y{next}
			cur = next
			continue
		}
		if last {
			cur.Set(key, node)
			return
		}
		next := cur.Get(key)
		if next == nil || next.Kind != 1 {
			next = Map()
			cur.Set(key, next)
		}
		cur = next
	}
}

func c01cLayout(cs c01cCase, paths []schemaPath) *Layout {
	var p schemaPath
	for _, q := range paths {
		if q.String() == cs.Path {
			p = q
		}
	}
	doc := buildConfusion(p, kindNode(cs.Kind))
	L := &Layout{Files: map[string]string{}, Env: map[string]string{"FOO": "bar"}, Home: "/home/user", WorkingDir: "/proj", Cwd: "/proj", Entry: "loader"}
	if cs.Entry != "" {
		L.Entry = cs.Entry
	}
	L.Opts = optSets[cs.OptSet%len(optSets)]
	L.Opts.ProjectName = "confusion"
	main := "/proj/compose.yaml"
	switch cs.Placement {
	case "single":
		L.Files[main] = Emit(doc, nil)
		L.Main = []string{main}
	case "override":
		// a valid value first, the confusing one on top of it
		valid := Map().Set("services", Map().Set("svc", Map().Set("image", Str("img"))))
		if p.Root == "services" && len(p.Segs) > 0 {
			r := zsimrt.NewRun(1)
			g := &G{R: r, feat: map[string]bool{}, L: &Layout{}}
			c := &svcCtx{name: "svc", dir: "/proj", networks: []string{"n1"}, volumes: []string{"v1"}, secrets: []string{"s1"}, configs: []string{"c1"}, others: []string{"other"}}
			if v := g.attr(p.Segs[0], c); v != nil {
				valid.Get("services").Get("svc").Set(p.Segs[0], v)
				valid.Get("services").Set("other", Map().Set("image", Str("img")))
				valid.Set("networks", Map().Set("n1", Null()))
				valid.Set("volumes", Map().Set("v1", Null()))
				valid.Set("secrets", Map().Set("s1", Map().Set("file", Str("./s"))))
				valid.Set("configs", Map().Set("c1", Map().Set("file", Str("./c"))))
			}
		}
		L.Files[main] = Emit(valid, nil)
		L.Files["/proj/override_f1.yaml"] = Emit(doc, nil)
		L.Main = []string{main, "/proj/override_f1.yaml"}
	case "extends-base":
		if p.Root == "services" {
			// the confusing service is the base, in another file
			L.Files["/proj/base/base_f0.yaml"] = Emit(doc, nil)
			L.Files[main] = "services:\n  child:\n    image: img\n    extends:\n      file: ./base/base_f0.yaml\n      service: svc\n  same:\n    extends: child\n"
		} else {
			L.Files[main] = Emit(doc, nil)
		}
		L.Main = []string{main}
	case "extends-valid-child", "extends-same-file":
		if p.Root == "services" && len(p.Segs) > 0 {
			sameFile := cs.Placement == "extends-same-file"
			child := Map().Set("image", Str("img")).Set("extends", Map().Set("file", Str("./base/base_f0.yaml")).Set("service", Str("svc")))
			if sameFile {
				child = Map().Set("image", Str("img")).Set("extends", Str("svc"))
			} else {
				L.Files["/proj/base/base_f0.yaml"] = Emit(doc, nil)
			}
			r := zsimrt.NewRun(1)
			g := &G{R: r, feat: map[string]bool{}, L: &Layout{}}
			c := &svcCtx{name: "child", dir: "/proj", networks: []string{"n1"}, volumes: []string{"v1"}, secrets: []string{"s1"}, configs: []string{"c1"}, others: []string{"other"}}
			md := Map().Set("services", Map().Set("child", child).Set("other", Map().Set("image", Str("img"))))
			if v := g.attr(p.Segs[0], c); v != nil {
				child.Set(p.Segs[0], v)
				md.Set("networks", Map().Set("n1", Null()))
				md.Set("volumes", Map().Set("v1", Null()))
				md.Set("secrets", Map().Set("s1", Map().Set("file", Str("./s"))))
				md.Set("configs", Map().Set("c1", Map().Set("file", Str("./c"))))
			} else if p.Segs[0] == "build" {
				child.Set("build", Str("."))
			}
			if sameFile {
				if sd := doc.Get("services"); sd != nil && sd.Kind == 1 && sd.Get("svc") != nil {
					md.Get("services").Set("svc", sd.Get("svc"))
				}
			}
			L.Files[main] = Emit(md, nil)
		} else {
			L.Files[main] = Emit(doc, nil)
		}
		L.Main = []string{main}
	case "both-files":
		L.Files[main] = Emit(doc, nil)
		L.Files["/proj/override_f1.yaml"] = Emit(buildConfusion(p, kindNode(cs.Kind)), nil)
		L.Main = []string{main, "/proj/override_f1.yaml"}
	case "extends-both":
		if p.Root == "services" {
			L.Files["/proj/base/base_f0.yaml"] = Emit(doc, nil)
			// the extending services carry the same confusing attribute as their base (other file, then same file)
			md := buildConfusion(p, kindNode(cs.Kind))
			ms := md.Get("services")
			if ms != nil && ms.Kind == 1 && ms.Get("svc") != nil && ms.Get("svc").Kind == 1 {
				child := ms.Get("svc")
				ms.Del("svc")
				child.Set("extends", Map().Set("file", Str("./base/base_f0.yaml")).Set("service", Str("svc")))
				ms.Set("child", child)
				md2 := buildConfusion(p, kindNode(cs.Kind))
				if s2 := md2.Get("services"); s2 != nil && s2.Kind == 1 && s2.Get("svc") != nil && s2.Get("svc").Kind == 1 {
					same := s2.Get("svc")
					same.Set("extends", Str("child"))
					ms.Set("same", same)
				}
				L.Files[main] = Emit(md, nil)
			} else {
				L.Files[main] = "services:\n  child:\n    image: img\n    extends:\n      file: ./base/base_f0.yaml\n      service: svc\n"
			}
		} else {
			L.Files[main] = Emit(doc, nil)
			L.Files["/proj/override_f1.yaml"] = Emit(buildConfusion(p, kindNode(cs.Kind)), nil)
			L.Main = []string{main, "/proj/override_f1.yaml"}
			break
		}
		L.Main = []string{main}
	case "included":
		L.Files["/proj/inc/inc_f0.yaml"] = Emit(doc, nil)
		L.Files[main] = "include:\n  - ./inc/inc_f0.yaml\nservices:\n  top:\n    image: img\n"
		L.Main = []string{main}
	}
	return L
}

func c01cDecode(idx int, paths []schemaPath) c01cCase {
	np, nk, npl, no := len(paths), len(nodeKinds), len(placements), len(optSets)
	i := idx
	cs := c01cCase{}
	cs.Kind = nodeKinds[i%nk]
	i /= nk
	cs.Path = paths[i%np].String()
	i /= np
	cs.Placement = placements[i%npl]
	i /= npl
	cs.OptSet = i % no
	i /= no
	if i%2 == 1 {
		cs.Entry = "model"
	}
	return cs
}

func c01cRun(c *Ctx, r *zsimrt.Run) {
	paths := loadSchemaPaths()
	total := len(paths) * len(nodeKinds) * len(placements) * len(optSets) * 2 // x entry point (project / model)
	var cs c01cCase
	if c.Tier == "thorough" {
		// exhaustive enumeration, strided over the workers
		idx := (c.Index%10000000)*c.Workers + c.Worker
		if idx >= total {
			c.Count("enumeration-exhausted", 1)
			c.Stop = true
			return
		}
		cs = c01cDecode(idx, paths)
	} else {
		// quick: every (path, kind) pair at one drawn placement/option set
		pk := len(paths) * len(nodeKinds)
		idx := (c.Index%10000000)*c.Workers + c.Worker
		if idx >= pk {
			c.Count("enumeration-exhausted", 1)
			c.Stop = true
			return
		}
		cs = c01cDecode(idx, paths)
		cs.Placement = placements[r.Draw("placement", len(placements))]
		cs.OptSet = r.Draw("optset", len(optSets))
		if r.Draw("entry-model", 8) == 0 {
			cs.Entry = "model"
		}
	}
	c.Count("schema-paths", 0)
	c.Max("schema-paths", len(paths))
	c.Max("enumeration-total", total)
	c01cExec(c, cs, paths)
}

func c01cExec(c *Ctx, cs c01cCase, paths []schemaPath) {
	L := c01cLayout(cs, paths)
	er := zsimrt.NewRun(12345)
	zsimrt.Activate(er)
	er.SetPolicy(zsimrt.OrdSorted)
	fs := Materialise(L)
	out := RunLoad(L, fs, "", true)
	c.Trace(fmt.Sprintf("%+v:%s:%s", cs, out.Kind(), out.PanicAt))
	c.Count("class-C", 1)
	c.Count("outcome-"+out.Kind(), 1)
	c.Count("placement-"+cs.Placement, 1)
	c.Max("steps-per-load", int(out.Steps))
	if !out.OK {
		c.Nontrivial(fmt.Sprintf("C/%s/%s/%s/%d/%s", cs.Path, cs.Kind, cs.Placement, cs.OptSet, cs.Entry))
	}
	c.Sample(map[string]any{"case": cs, "document": L.Files, "outcome": out.Kind(), "err": truncate(out.Err, 160)})
	if clause, key, detail := c01Judge(L, out, nil, fs.Events, false); clause != "" {
		b, _ := json.Marshal(map[string]any{"case": cs, "layout": L, "outcome": out})
		optClass := "validated"
		if L.Opts.SkipValidation {
			optClass = "skip-validation"
		}
		c.Violate(Violation{Property: "C01", Clause: clause, Key: clause + ":" + key + " [" + optClass + "]", Detail: fmt.Sprintf("case %+v\n%s", cs, detail), Engine: "c01c", Scenario: b})
	}
}

func c01cReplay(c *Ctx, v *Violation) {
	var sc struct {
		Case c01cCase `json:"case"`
	}
	if err := json.Unmarshal(v.Scenario, &sc); err != nil {
		c.Count("replay-bad-file", 1)
		return
	}
	c01cExec(c, sc.Case, loadSchemaPaths())
}
