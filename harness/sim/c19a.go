package sim

import (
	"encoding/json"
	"errors"
	"fmt"
	"reflect"
	"strings"
	"sync"
	"testing"
	"testing/synctest"

	"github.com/compose-spec/compose-go/v2/types"
	"github.com/compose-spec/compose-go/v2/zsimrt"
	"github.com/distribution/reference"
	godigest "github.com/opencontainers/go-digest"
)

// Engine (a) of C19: the library's own parallel per-service operations under
// the seeded cooperative scheduler.

func init() {
	engines["c19a"] = &engine{prop: "C19", run: c19aRun, replay: c19aReplay}
}

type c19aScenario struct {
	N        int      `json:"n"`
	Op       string   `json:"op"` // "transform", "images"
	Fail     []string `json:"fail,omitempty"`
	Strategy int      `json:"strategy"`
	Policy   int      `json:"policy"`
	ExecSeed uint64   `json:"exec_seed"`
	NilMap   bool     `json:"nil_services_map,omitempty"`
	HoldAll  bool     `json:"hold_all,omitempty"` // no callback returns before all N have been entered (any completion order must be possible)
	SharedRepo bool   `json:"shared_repository,omitempty"` // all services use one repository with different tags (img:sN instead of img-sN)
}

func (sc *c19aScenario) image(n string) string {
	if sc.SharedRepo {
		return "img:" + n
	}
	return "img-" + n
}

func (sc *c19aScenario) project() *types.Project {
	p := &types.Project{Name: "sim", Services: types.Services{}}
	if sc.NilMap && sc.N == 0 {
		p.Services = nil
	}
	for i := 0; i < sc.N; i++ {
		n := fmt.Sprintf("s%d", i)
		p.Services[n] = types.ServiceConfig{Name: n, Image: sc.image(n), Labels: types.Labels{"k": n}, Environment: types.MappingWithEquals{"E": nil}}
	}
	p.Networks = types.Networks{"default": types.NetworkConfig{Name: "sim_default"}}
	return p
}

type c19aOutcome struct {
	Problems []string
	Trace    []string
	Events   []string
	Steps    int
	MaxPar   int
	Digest   string
	Probes   map[string]int
}

// schedLoop drives the scheduler until the operation returns; payloadFor gives
// the value a pending callback is released with.
func schedLoop(s *zsimrt.Sched, budget int, payloadFor func(*zsimrt.Parked) any, drain any) (deadlock, livelock bool) {
	for {
		ps, done := s.Quiesce()
		if done {
			for i := 0; i < 1000 && len(ps) > 0; i++ {
				p := s.Pick(ps)
				s.Release(p, drain)
				ps, _ = s.Quiesce()
			}
			return false, false
		}
		if len(ps) == 0 {
			return true, false
		}
		if s.Steps > budget {
			return false, true
		}
		if s.Hold != nil {
			ps = s.Hold(ps)
			if len(ps) == 0 {
				return true, false
			}
		}
		p := s.Pick(ps)
		var payload any
		if p.Kind == "callback" {
			payload = payloadFor(p)
		}
		s.Release(p, payload)
	}
}

func runFanout(t *testing.T, sc *c19aScenario, record bool) *c19aOutcome {
	out := &c19aOutcome{Probes: map[string]int{}}
	er := zsimrt.NewRun(sc.ExecSeed)
	er.SetPolicy(sc.Policy)
	zsimrt.Activate(er)
	defer zsimrt.Deactivate()
	var mu sync.Mutex
	var problems, events []string
	problem := func(c, d string) { problems = append(problems, c+"|"+d) }
	fails := map[string]bool{}
	for _, f := range sc.Fail {
		fails[f] = true
	}
	project := sc.project()
	body := func(t *testing.T) {
		s := zsimrt.NewSched(er, synctest.Wait)
		s.Record = record
		s.SetStrategy(sc.Strategy, 40)
		entered := map[string]int{}
		running := 0
		var failed []error
		var result *types.Project
		var retErr error
		returned := false
		call := func(name string) error {
			mu.Lock()
			events = append(events, "enter:"+name)
			entered[name]++
			if entered[name] > 1 {
				problem("callback-called-twice", name)
			}
			running++
			mu.Unlock()
			res := s.Callback("fn:"+name, name).(cbResult)
			mu.Lock()
			events = append(events, "exit:"+name)
			running--
			if res.err != nil {
				failed = append(failed, res.err)
			}
			mu.Unlock()
			return res.err
		}
		go func() {
			s.StartRoot("0")
			switch sc.Op {
			case "images":
				result, retErr = project.WithImagesResolved(func(named reference.Named) (godigest.Digest, error) {
					name := strings.TrimPrefix(reference.Path(named), "library/img-")
					if t, ok := named.(reference.Tagged); ok && sc.SharedRepo {
						name = t.Tag()
					}
					if err := call(name); err != nil {
						return "", err
					}
					return godigest.FromString(name), nil
				})
			default:
				result, retErr = project.WithServicesTransform(func(name string, svc types.ServiceConfig) (types.ServiceConfig, error) {
					if svc.Name != name {
						mu.Lock()
						problem("wrong-service-passed", name+" got "+svc.Name)
						mu.Unlock()
					}
					if err := call(name); err != nil {
						return svc, err
					}
					svc.Image = "transformed-" + name
					svc.Labels = types.Labels{"new": name}
					return svc, nil
				})
			}
			mu.Lock()
			returned = true
			events = append(events, "return")
			if running != 0 {
				problem("returned-before-callbacks-returned", fmt.Sprintf("%d callbacks still running", running))
			}
			mu.Unlock()
			s.MarkDone()
		}()
		if sc.HoldAll {
			s.Hold = func(ps []*zsimrt.Parked) []*zsimrt.Parked {
				mu.Lock()
				n := len(entered)
				mu.Unlock()
				if n >= sc.N || len(sc.Fail) > 0 {
					return ps
				}
				var rest []*zsimrt.Parked
				for _, p := range ps {
					if p.Kind != "callback" {
						rest = append(rest, p)
					}
				}
				return rest // may be empty: then nothing but held callbacks is left, although some were never started
			}
		}
		dead, live := schedLoop(s, 200*(sc.N+2), func(p *zsimrt.Parked) any {
			name := p.Info.(string)
			if fails[name] {
				return cbResult{err: fmt.Errorf("fn(%s) failed", name)}
			}
			return cbResult{}
		}, cbResult{})
		out.Steps, out.MaxPar, out.Trace = s.Steps, s.MaxPar, s.Trace
		mu.Lock()
		defer mu.Unlock()
		if dead && sc.HoldAll && len(entered) < sc.N {
			problem("callbacks-cannot-all-be-in-flight", fmt.Sprintf("%d of %d per-service calls were started, the others only start once one of these returns: a completion order in which a later call finishes first cannot happen (hidden concurrency bound); events: %s", len(entered), sc.N, strings.Join(events, " ")))
			return
		}
		if dead {
			problem("deadlock", "no task runnable, nothing pending, call has not returned; events: "+strings.Join(events, " "))
			return
		}
		if live {
			problem("no-return-within-step-bound", fmt.Sprint(s.Steps))
			return
		}
		if !returned {
			return
		}
		if !reflect.DeepEqual(project, sc.project()) {
			problem("receiver-modified", FirstDiff(project, sc.project()))
		}
		if len(failed) > 0 {
			if retErr == nil {
				problem("callback-error-lost", "a callback failed but nil was returned")
				return
			}
			ok := false
			for _, e := range failed {
				if errors.Is(retErr, e) || retErr.Error() == e.Error() {
					ok = true
				}
			}
			if !ok {
				problem("foreign-error-returned", retErr.Error())
			}
			if retErr.Error() != failed[0].Error() {
				out.Probes["error-returned-is-not-first-exit"]++
			}
			return
		}
		if retErr != nil {
			problem("spurious-error", retErr.Error())
			return
		}
		if result == nil {
			problem("nil-result", "no error and no project")
			return
		}
		if len(result.Services) != sc.N {
			problem("result-service-count", fmt.Sprintf("%d services in result, expected %d", len(result.Services), sc.N))
		}
		for i := 0; i < sc.N; i++ {
			n := fmt.Sprintf("s%d", i)
			if entered[n] != 1 {
				problem("callback-not-called-once", fmt.Sprintf("%s called %d times", n, entered[n]))
			}
			got, ok := result.Services[n]
			if !ok {
				problem("result-lost", n+" missing from the result")
				continue
			}
			switch sc.Op {
			case "images":
				// the digest handed back by the callback of this very service, on this service's image
				if !strings.HasPrefix(got.Image, "docker.io/library/"+sc.image(n)) || !strings.HasSuffix(got.Image, "@"+godigest.FromString(n).String()) {
					problem("result-wrong", fmt.Sprintf("%s image %q does not carry its own digest %s", n, got.Image, godigest.FromString(n)))
				}
			default:
				if got.Image != "transformed-"+n || got.Labels["new"] != n || got.Name != n {
					problem("result-wrong", fmt.Sprintf("%s: %q %v", n, got.Image, got.Labels))
				}
			}
		}
		if !reflect.DeepEqual(result.Networks, project.Networks) {
			problem("result-lost-other-fields", "Networks")
		}
	}
	func() {
		defer func() {
			if v := recover(); v != nil {
				mu.Lock()
				if len(problems) == 0 {
					problem("goroutine-leak-or-bubble-panic", truncate(fmt.Sprint(v), 200))
				}
				mu.Unlock()
			}
		}()
		synctest.Test(t, body)
	}()
	out.Problems, out.Events = problems, events
	out.Digest = fmt.Sprintf("%016x", er.Digest())
	return out
}

func c19aRun(c *Ctx, r *zsimrt.Run) {
	sc := &c19aScenario{N: r.Draw("n", 7), Policy: -1}
	if r.Chance("op-images", 1, 3) {
		sc.Op = "images"
	} else {
		sc.Op = "transform"
	}
	sc.NilMap = r.Chance("nil-map", 1, 2)
	switch r.Draw("faults", 5) {
	case 0, 1:
		if sc.N > 0 {
			sc.Fail = []string{fmt.Sprintf("s%d", r.Draw("fail", sc.N))}
		}
	case 2:
		for i := 0; i < sc.N; i++ {
			if r.Chance("fail-each", 1, 2) {
				sc.Fail = append(sc.Fail, fmt.Sprintf("s%d", i))
			}
		}
	}
	sc.Strategy = r.Draw("strategy", 3)
	sc.HoldAll = len(sc.Fail) == 0 && r.Chance("hold-all", 1, 3)
	sc.SharedRepo = r.Chance("shared-repo", 1, 2)
	sc.ExecSeed = uint64(r.Draw("exec-seed", 1<<30)) + 1
	c19aExec(c, sc)
}

func c19aExec(c *Ctx, sc *c19aScenario) {
	out := runFanout(workerT, sc, false)
	c.Trace(out.Digest + strings.Join(out.Events, ",") + strings.Join(out.Problems, ";"))
	c.Count("fanouts", 1)
	c.Count("sched-steps", out.Steps)
	c.Max("sched-steps-per-run", out.Steps)
	c.Count("services-"+fmt.Sprint(sc.N), 1)
	if len(sc.Fail) > 0 {
		c.Count("fault-fired:callback-error", 1)
	}
	if sc.N == 0 {
		c.Count("probe:zero-services", 1)
	}
	for k, v := range out.Probes {
		c.Count("probe:"+k, v)
	}
	if len(sc.Fail) > 0 && len(out.Events) > 1 && strings.HasPrefix(out.Events[len(out.Events)-2], "exit:"+sc.Fail[len(sc.Fail)-1]) {
		c.Count("probe:error-from-last-callback", 1)
	}
	if out.MaxPar >= 2 {
		c.Nontrivial(out.Digest)
	}
	c.Sample(map[string]any{"scenario": sc, "events": out.Events, "steps": out.Steps})
	if len(out.Problems) == 0 {
		return
	}
	rec := runFanout(workerT, sc, true)
	parts := strings.SplitN(out.Problems[0], "|", 2)
	b, _ := json.Marshal(sc)
	c.Violate(Violation{Property: "C19", Clause: parts[0], Key: "fanout:" + parts[0], Detail: parts[1] + "\nevents: " + strings.Join(rec.Events, " "), Engine: "c19a",
		Scenario: b, Trace: rec.Trace, Digest: rec.Digest, Notes: map[string]any{"all_problems": out.Problems}})
}

func c19aReplay(c *Ctx, v *Violation) {
	var sc c19aScenario
	if err := json.Unmarshal(v.Scenario, &sc); err != nil {
		c.Count("replay-bad-file", 1)
		return
	}
	out := runFanout(workerT, &sc, true)
	for _, p := range out.Problems {
		parts := strings.SplitN(p, "|", 2)
		c.Violate(Violation{Property: "C19", Clause: parts[0], Key: "fanout:" + parts[0], Detail: parts[1], Engine: "c19a", Trace: out.Trace, Digest: out.Digest})
	}
}
