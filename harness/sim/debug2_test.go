package sim

import (
	"fmt"
	"os"
	"sort"
	"testing"

	"github.com/compose-spec/compose-go/v2/zsimrt"
)

func TestDebugC14(t *testing.T) {
	if os.Getenv("VERIF_DEBUG_C14") == "" {
		t.Skip()
	}
	idx := envInt("VERIF_DEBUG_C14", 35)
	for rep := 0; rep < 3; rep++ {
		r := zsimrt.NewRun(zsimrt.Mix(7, "c14", uint64(idx)))
		zsimrt.Activate(r)
		sc := genC14(r)
		zsimrt.Deactivate()
		root, fs := populated(sc.PopSeed)
		er := zsimrt.NewRun(sc.ExecSeed)
		er.FS = fs
		zsimrt.Activate(er)
		_ = root.WithoutUnnecessaryResources()
		zsimrt.Deactivate()
		keys := []string{}
		for k, v := range er.MultiKey {
			keys = append(keys, fmt.Sprintf("%s=%d/%d", k, v, er.NonCanon[k]))
		}
		sort.Strings(keys)
		fmt.Printf("rep %d digest %016x fp %x sites %v\n", rep, er.Digest(), fnvHash([]byte(Fingerprint(root))), keys)
	}
}
