package sim

import (
	"fmt"
	"os"
	"strings"
	"testing"

	"github.com/compose-spec/compose-go/v2/zsimrt"
)

func TestDebugRemote(t *testing.T) {
	if os.Getenv("VERIF_DEBUG_REMOTE") == "" {
		t.Skip()
	}
	n, nested, ok, okNested := 0, 0, 0, 0
	for i := 0; i < 3000; i++ {
		r := zsimrt.NewRun(zsimrt.Mix(1, "c02", uint64(i)))
		zsimrt.Activate(r)
		L := c02Layout(r)
		if len(L.Remote) == 0 {
			continue
		}
		n++
		isNested := false
		for f, txt := range L.Files {
			if strings.Contains(f, "/base") && strings.Contains(txt, "sim://") {
				isNested = true
			}
		}
		r.SetPolicy(zsimrt.OrdSorted)
		o := RunLoad(L, Materialise(L), "", false)
		if o.OK {
			ok++
		}
		if isNested {
			nested++
			if o.OK {
				okNested++
			} else if nested < 4 {
				fmt.Println("nested fails:", o.Err, L.Remote, L.Opts.SkipExtends)
			}
		}
	}
	fmt.Printf("remote layouts %d ok %d nested %d okNested %d\n", n, ok, nested, okNested)
}
