package sim

import (
	"fmt"
	"reflect"
	"sort"
	"strings"
	"unsafe"
)

// ---------------------------------------------------------------- populate

// populator fills every field of every reachable struct with a non-zero,
// choice-dependent value: maps and slices get >= 1 element, pointers are non-nil.
type populator struct {
	draw    func(label string, n int) int
	counter int
	special func(path string, v reflect.Value) bool // returns true when it filled v itself
}

func (p *populator) next() int { p.counter++; return p.counter }

func (p *populator) fill(v reflect.Value, path string, depth int) {
	if p.special != nil && p.special(path, v) {
		return
	}
	if depth > 12 {
		return
	}
	switch v.Kind() {
	case reflect.String:
		v.SetString(fmt.Sprintf("v%d", p.next()))
	case reflect.Bool:
		v.SetBool(true)
	case reflect.Int, reflect.Int8, reflect.Int16, reflect.Int32, reflect.Int64:
		v.SetInt(int64(100 + p.next()))
	case reflect.Uint, reflect.Uint8, reflect.Uint16, reflect.Uint32, reflect.Uint64:
		v.SetUint(uint64(100 + p.next()%100))
	case reflect.Float32, reflect.Float64:
		v.SetFloat(float64(p.next()) + 0.5)
	case reflect.Ptr:
		n := reflect.New(v.Type().Elem())
		p.fill(n.Elem(), path, depth+1)
		v.Set(n)
	case reflect.Slice:
		n := 1 + p.draw("slice-len", 2)
		s := reflect.MakeSlice(v.Type(), n, n+1) // spare capacity: appends by the library would be visible
		for i := 0; i < n; i++ {
			p.fill(s.Index(i), fmt.Sprintf("%s[%d]", path, i), depth+1)
		}
		v.Set(s)
	case reflect.Map:
		n := 1 + p.draw("map-len", 2)
		m := reflect.MakeMapWithSize(v.Type(), n)
		for i := 0; i < n; i++ {
			k := reflect.New(v.Type().Key()).Elem()
			p.fill(k, path+".key", depth+1)
			e := reflect.New(v.Type().Elem()).Elem()
			p.fill(e, fmt.Sprintf("%s[%v]", path, k.Interface()), depth+1)
			m.SetMapIndex(k, e)
		}
		v.Set(m)
	case reflect.Struct:
		for i := 0; i < v.NumField(); i++ {
			f := v.Field(i)
			if !f.CanSet() {
				continue // unexported: left at zero, still fingerprinted
			}
			p.fill(f, path+"."+v.Type().Field(i).Name, depth+1)
		}
	case reflect.Interface:
		// opaque payload: a small tree of maps / slices / strings
		var payload any
		switch p.draw("iface", 3) {
		case 0:
			payload = fmt.Sprintf("x%d", p.next())
		case 1:
			payload = map[string]any{"k": fmt.Sprintf("x%d", p.next()), "l": []any{"a", "b"}}
		default:
			payload = []any{fmt.Sprintf("x%d", p.next()), map[string]any{"n": "m"}}
		}
		if reflect.TypeOf(payload).AssignableTo(v.Type()) {
			v.Set(reflect.ValueOf(payload))
		}
	}
}

// ---------------------------------------------------------------- fingerprint

// Fingerprint is an independent structural rendering of a value (reflection
// walk, unexported fields included, map keys sorted). It distinguishes nil from
// empty maps/slices.
func Fingerprint(x any) string {
	var b strings.Builder
	fp(&b, reflect.ValueOf(x), 0)
	return b.String()
}

func fp(b *strings.Builder, v reflect.Value, depth int) {
	if !v.IsValid() {
		b.WriteString("<invalid>")
		return
	}
	if depth > 40 {
		b.WriteString("<deep>")
		return
	}
	switch v.Kind() {
	case reflect.Ptr:
		if v.IsNil() {
			b.WriteString("nil")
			return
		}
		b.WriteString("&")
		fp(b, v.Elem(), depth+1)
	case reflect.Interface:
		if v.IsNil() {
			b.WriteString("nil")
			return
		}
		b.WriteString("i(")
		fp(b, v.Elem(), depth+1)
		b.WriteString(")")
	case reflect.Struct:
		b.WriteString(v.Type().Name() + "{")
		for i := 0; i < v.NumField(); i++ {
			b.WriteString(v.Type().Field(i).Name + ":")
			fp(b, v.Field(i), depth+1)
			b.WriteString(",")
		}
		b.WriteString("}")
	case reflect.Slice:
		if v.IsNil() {
			b.WriteString("nil[]")
			return
		}
		b.WriteString("[")
		for i := 0; i < v.Len(); i++ {
			fp(b, v.Index(i), depth+1)
			b.WriteString(",")
		}
		b.WriteString("]")
	case reflect.Array:
		b.WriteString("[")
		for i := 0; i < v.Len(); i++ {
			fp(b, v.Index(i), depth+1)
			b.WriteString(",")
		}
		b.WriteString("]")
	case reflect.Map:
		if v.IsNil() {
			b.WriteString("nilmap")
			return
		}
		type kv struct {
			k string
			v reflect.Value
		}
		var kvs []kv
		it := v.MapRange()
		for it.Next() {
			var kb strings.Builder
			fp(&kb, it.Key(), depth+1)
			kvs = append(kvs, kv{kb.String(), it.Value()})
		}
		sort.Slice(kvs, func(i, j int) bool { return kvs[i].k < kvs[j].k })
		b.WriteString("map{")
		for _, e := range kvs {
			b.WriteString(e.k + "=>")
			fp(b, e.v, depth+1)
			b.WriteString(",")
		}
		b.WriteString("}")
	case reflect.String:
		fmt.Fprintf(b, "%q", v.String())
	case reflect.Bool:
		fmt.Fprintf(b, "%v", v.Bool())
	case reflect.Int, reflect.Int8, reflect.Int16, reflect.Int32, reflect.Int64:
		fmt.Fprintf(b, "%d", v.Int())
	case reflect.Uint, reflect.Uint8, reflect.Uint16, reflect.Uint32, reflect.Uint64, reflect.Uintptr:
		fmt.Fprintf(b, "%d", v.Uint())
	case reflect.Float32, reflect.Float64:
		fmt.Fprintf(b, "%g", v.Float())
	case reflect.Func:
		if v.IsNil() {
			b.WriteString("nilfunc")
		} else {
			b.WriteString("func")
		}
	default:
		b.WriteString("<" + v.Kind().String() + ">")
	}
}

// ---------------------------------------------------------------- alias walk

// refs collects the identities of all maps, slice backing arrays (cap > 0) and
// pointers reachable from v, with the path at which each was first seen.
// Nothing below a path for which opaque(path) is true is collected.
func refs(x any, opaque func(path string) bool) map[uintptr]string {
	out := map[uintptr]string{}
	collect(reflect.ValueOf(x), "", out, opaque, 0)
	return out
}

func collect(v reflect.Value, path string, out map[uintptr]string, opaque func(string) bool, depth int) {
	if !v.IsValid() || depth > 40 {
		return
	}
	switch v.Kind() {
	case reflect.Ptr:
		if v.IsNil() {
			return
		}
		if v.Type().Elem().Size() > 0 {
			if _, ok := out[v.Pointer()]; !ok {
				out[v.Pointer()] = path + " (pointer)"
			}
		}
		collect(v.Elem(), path, out, opaque, depth+1)
	case reflect.Interface:
		if !v.IsNil() {
			collect(v.Elem(), path, out, opaque, depth+1)
		}
	case reflect.Struct:
		for i := 0; i < v.NumField(); i++ {
			collect(v.Field(i), path+"."+v.Type().Field(i).Name, out, opaque, depth+1)
		}
	case reflect.Slice:
		if v.IsNil() {
			return
		}
		if v.Cap() > 0 && v.Type().Elem().Size() > 0 {
			if _, ok := out[v.Pointer()]; !ok {
				out[v.Pointer()] = path + " (slice backing array)"
			}
		}
		for i := 0; i < v.Len(); i++ {
			collect(v.Index(i), fmt.Sprintf("%s[%d]", path, i), out, opaque, depth+1)
		}
	case reflect.Map:
		if v.IsNil() {
			return
		}
		if _, ok := out[v.Pointer()]; !ok {
			out[v.Pointer()] = path + " (map)"
		}
		if opaque != nil && opaque(path) {
			return // the map itself is model state; its values are opaque payloads
		}
		it := v.MapRange()
		for it.Next() {
			collect(it.Value(), fmt.Sprintf("%s[%v]", path, it.Key().Interface()), out, opaque, depth+1)
		}
	}
}

// sharedRefs returns the paths (in a) of mutable state reachable from both a and b.
func sharedRefs(a, b any, opaque func(string) bool) []string {
	ra, rb := refs(a, opaque), refs(b, opaque)
	var out []string
	for p, where := range ra {
		if w2, ok := rb[p]; ok {
			out = append(out, where+" == "+w2)
		}
	}
	sort.Strings(out)
	return out
}

// ---------------------------------------------------------------- all differences

// Diffs lists paths at which a and b differ (up to max).
func Diffs(a, b any, max int) []string {
	var out []string
	diffs(reflect.ValueOf(a), reflect.ValueOf(b), "", &out, max, 0)
	return out
}

func diffs(a, b reflect.Value, p string, out *[]string, max, depth int) {
	if len(*out) >= max || depth > 40 {
		return
	}
	if !a.IsValid() || !b.IsValid() {
		if a.IsValid() != b.IsValid() {
			*out = append(*out, p)
		}
		return
	}
	if a.Type() != b.Type() {
		*out = append(*out, p)
		return
	}
	switch a.Kind() {
	case reflect.Ptr, reflect.Interface:
		if a.IsNil() || b.IsNil() {
			if a.IsNil() != b.IsNil() {
				*out = append(*out, p)
			}
			return
		}
		diffs(a.Elem(), b.Elem(), p, out, max, depth+1)
	case reflect.Struct:
		for i := 0; i < a.NumField(); i++ {
			diffs(a.Field(i), b.Field(i), p+"."+a.Type().Field(i).Name, out, max, depth+1)
		}
	case reflect.Slice, reflect.Array:
		if a.Kind() == reflect.Slice && a.IsNil() != b.IsNil() && a.Len() == 0 && b.Len() == 0 {
			*out = append(*out, p+"(nil-vs-empty)")
			return
		}
		if a.Len() != b.Len() {
			*out = append(*out, p+"(len)")
			return
		}
		for i := 0; i < a.Len(); i++ {
			diffs(a.Index(i), b.Index(i), fmt.Sprintf("%s[%d]", p, i), out, max, depth+1)
		}
	case reflect.Map:
		if a.IsNil() != b.IsNil() && a.Len() == 0 && b.Len() == 0 {
			*out = append(*out, p+"(nil-vs-empty)")
			return
		}
		keys := map[string]reflect.Value{}
		for _, k := range a.MapKeys() {
			keys[fmt.Sprint(k.Interface())] = k
		}
		for _, k := range b.MapKeys() {
			keys[fmt.Sprint(k.Interface())] = k
		}
		names := make([]string, 0, len(keys))
		for k := range keys {
			names = append(names, k)
		}
		sort.Strings(names)
		for _, n := range names {
			k := keys[n]
			av, bv := a.MapIndex(k), b.MapIndex(k)
			if !av.IsValid() || !bv.IsValid() {
				*out = append(*out, fmt.Sprintf("%s[%s](presence)", p, n))
				continue
			}
			diffs(av, bv, fmt.Sprintf("%s[%s]", p, n), out, max, depth+1)
		}
	default:
		var eq bool
		switch a.Kind() {
		case reflect.String:
			eq = a.String() == b.String()
		case reflect.Bool:
			eq = a.Bool() == b.Bool()
		case reflect.Int, reflect.Int8, reflect.Int16, reflect.Int32, reflect.Int64:
			eq = a.Int() == b.Int()
		case reflect.Uint, reflect.Uint8, reflect.Uint16, reflect.Uint32, reflect.Uint64, reflect.Uintptr:
			eq = a.Uint() == b.Uint()
		case reflect.Float32, reflect.Float64:
			eq = a.Float() == b.Float()
		case reflect.Func:
			eq = a.IsNil() == b.IsNil()
		default:
			eq = true
		}
		if !eq {
			*out = append(*out, p)
		}
	}
}

// ---------------------------------------------------------------- mutable locations

// location is something a client may mutate in place.
type location struct {
	path string
	kind string // "map", "slice", "ptr"
	v    reflect.Value
}

func locations(x any, opaque func(string) bool) []location {
	var out []location
	locs(reflect.ValueOf(x), "", &out, opaque, 0)
	return out
}

func locs(v reflect.Value, path string, out *[]location, opaque func(string) bool, depth int) {
	if !v.IsValid() || depth > 40 {
		return
	}
	switch v.Kind() {
	case reflect.Ptr:
		if v.IsNil() {
			return
		}
		if path != "" {
			*out = append(*out, location{path, "ptr", v})
		}
		locs(v.Elem(), path, out, opaque, depth+1)
	case reflect.Interface:
		if !v.IsNil() {
			locs(v.Elem(), path, out, opaque, depth+1)
		}
	case reflect.Struct:
		for i := 0; i < v.NumField(); i++ {
			if v.Type().Field(i).PkgPath != "" {
				continue
			}
			locs(v.Field(i), path+"."+v.Type().Field(i).Name, out, opaque, depth+1)
		}
	case reflect.Slice:
		if v.IsNil() || v.Len() == 0 {
			return
		}
		*out = append(*out, location{path, "slice", v})
		for i := 0; i < v.Len(); i++ {
			locs(v.Index(i), fmt.Sprintf("%s[%d]", path, i), out, opaque, depth+1)
		}
	case reflect.Map:
		if v.IsNil() {
			return
		}
		*out = append(*out, location{path, "map", v})
		if opaque != nil && opaque(path) {
			return
		}
		keys := v.MapKeys()
		sort.Slice(keys, func(i, j int) bool { return fmt.Sprint(keys[i].Interface()) < fmt.Sprint(keys[j].Interface()) })
		for _, k := range keys {
			// map values are not addressable: only reference-typed values lead to further locations
			locs(v.MapIndex(k), fmt.Sprintf("%s[%v]", path, k.Interface()), out, opaque, depth+1)
		}
	}
}

// scribble changes every settable scalar below v (used on pointees and slice elements).
func scribble(v reflect.Value, depth int) bool {
	if !v.IsValid() || depth > 6 {
		return false
	}
	switch v.Kind() {
	case reflect.String:
		if v.CanSet() {
			v.SetString(v.String() + "~mutated")
			return true
		}
	case reflect.Bool:
		if v.CanSet() {
			v.SetBool(!v.Bool())
			return true
		}
	case reflect.Int, reflect.Int8, reflect.Int16, reflect.Int32, reflect.Int64:
		if v.CanSet() {
			v.SetInt(v.Int() + 1)
			return true
		}
	case reflect.Uint, reflect.Uint8, reflect.Uint16, reflect.Uint32, reflect.Uint64:
		if v.CanSet() {
			v.SetUint(v.Uint() + 1)
			return true
		}
	case reflect.Float32, reflect.Float64:
		if v.CanSet() {
			v.SetFloat(v.Float() + 1)
			return true
		}
	case reflect.Struct:
		done := false
		for i := 0; i < v.NumField(); i++ {
			if scribble(v.Field(i), depth+1) {
				done = true
			}
		}
		return done
	case reflect.Ptr:
		if !v.IsNil() {
			return scribble(v.Elem(), depth+1)
		}
	case reflect.Slice:
		if v.Len() > 0 {
			return scribble(v.Index(0), depth+1)
		}
	case reflect.Interface:
		if v.CanSet() {
			v.Set(reflect.ValueOf("mutated-payload"))
			return true
		}
	}
	return false
}

var _ = unsafe.Pointer(nil)
