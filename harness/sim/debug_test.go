package sim

import (
	"fmt"
	"os"
	"regexp"
	"sort"
	"testing"

	"github.com/compose-spec/compose-go/v2/zsimrt"
)

// TestGenStats prints a histogram of load outcomes of the layout generator (debug aid).
func TestGenStats(t *testing.T) {
	if os.Getenv("VERIF_GENSTATS") == "" {
		t.Skip()
	}
	n := envInt("VERIF_GENSTATS", 500)
	hist := map[string]int{}
	ex := map[string]string{}
	re := regexp.MustCompile(`[0-9]+|svc_[a-z]|inc_\w+|base\d_\w|"[^"]*"|/[\w/.\-]+`)
	for i := 0; i < n; i++ {
		r := zsimrt.NewRun(zsimrt.Mix(7, "genstats", uint64(i)))
		zsimrt.Activate(r)
		r.SetPolicy(zsimrt.OrdSorted)
		L := GenLayout(r)
		if os.Getenv("VERIF_NOOPTS") != "" {
			L.Opts = LoadOpts{}
		}
		out := RunLoad(L, Materialise(L), "", true)
		k := out.Kind()
		if !out.OK {
			k += ": " + re.ReplaceAllString(out.Err+out.Panic+out.Budget, "#")
			if len(k) > 150 {
				k = k[:150]
			}
			if _, ok := ex[k]; !ok {
				ex[k] = fmt.Sprintf("seed-index %d: %s %s", i, out.Err, out.PanicAt)
			}
		}
		hist[k]++
		zsimrt.Deactivate()
	}
	keys := make([]string, 0, len(hist))
	for k := range hist {
		keys = append(keys, k)
	}
	sort.Slice(keys, func(i, j int) bool { return hist[keys[i]] > hist[keys[j]] })
	for _, k := range keys {
		fmt.Printf("%5d %s\n      e.g. %s\n", hist[k], k, ex[k])
	}
}
