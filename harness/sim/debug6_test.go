package sim

import (
	"encoding/json"
	"fmt"
	"os"
	"testing"

	"github.com/compose-spec/compose-go/v2/zsimrt"
)

func TestDebugReplayLayout(t *testing.T) {
	p := os.Getenv("VERIF_DEBUG_LAYOUT")
	if p == "" {
		t.Skip()
	}
	b, _ := os.ReadFile(p)
	var v struct {
		Scenario struct {
			Layout *Layout `json:"layout"`
		} `json:"scenario"`
	}
	if err := json.Unmarshal(b, &v); err != nil {
		t.Fatal(err)
	}
	L := v.Scenario.Layout
	r := zsimrt.NewRun(1)
	zsimrt.Activate(r)
	r.SetPolicy(zsimrt.OrdSorted)
	o := RunLoad(L, Materialise(L), "", true)
	fmt.Println(o.Kind(), o.Err)
	if o.Project != nil {
		for n, s := range o.Project.AllServices() {
			fmt.Println(n, s.EnvFiles)
		}
	}
	fmt.Println(L.Files[L.Main[0]])
}
