package sim

import (
	"encoding/json"
	"fmt"
	"path"
	"sort"
	"strings"
	"time"

	"github.com/compose-spec/compose-go/v2/zsimrt"
)

// Engine c01f: single-fault ENUMERATION. One evaluation = one generated layout; its fault-free load is recorded
// and then every (I/O event, applicable fault kind, mode) single fault is injected in turn - not sampled. The
// sampled engine c01 covers multi-fault plans, content faults at drawn offsets and stub-loader faults.

func init() {
	engines["c01f"] = &engine{prop: "C01", run: c01fRun, replay: c01Replay}
}

func c01fRun(c *Ctx, r *zsimrt.Run) {
	L := c01Layout(r)
	g := &G{R: r, feat: map[string]bool{}, L: L}
	switch r.Draw("entry", 6) {
	case 0:
		L.Entry = "model"
	case 1, 2:
		L.Entry = "cli"
		c01CliTweaks(g, L)
	}
	markEnvFiles(L)
	execSeed := uint64(r.Draw("exec-seed", 1<<30)) + 1
	er := zsimrt.NewRun(execSeed)
	zsimrt.Activate(er)
	defer zsimrt.Activate(r)
	er.SetPolicy(zsimrt.OrdSorted)
	fs := Materialise(L)
	base := RunLoad(L, fs, "", true)
	c.Count("enumerated-layouts", 1)
	c.Count("outcome-"+base.Kind(), 1)
	if clause, key, detail := c01Judge(L, base, nil, fs.Events, base.OK); clause != "" {
		b, _ := json.Marshal(&c01Scenario{Layout: L, Policy: zsimrt.OrdSorted, ExecSeed: execSeed, Events: fs.Events, Outcome: base})
		c.Violate(Violation{Property: "C01", Clause: clause, Key: clause + ":" + key + optTag(L, clause), Detail: detail, Engine: "c01f", Scenario: b})
		return
	}
	events := append([]zsimrt.IOEvent(nil), fs.Events...)
	// every subset of size one of the referenced files made absent, INCLUDING the files the fault-free load never
	// consulted (the enumeration below cannot plant a fault where there is no I/O event): a file the documents in
	// play refer to, under options that do not switch the referring feature off, has to be looked at. Checked for
	// the drawn option set and for each option set one flag away from it.
	checkNeverConsulted(c, L, base, events, execSeed, zsimrt.OrdSorted)
	for _, L2 := range optionNeighbours(L) {
		fsv := Materialise(L2)
		bv := RunLoad(L2, fsv, "", false)
		c.Count("option-neighbour-loads", 1)
		if clause, key, detail := c01Judge(L2, bv, nil, fsv.Events, bv.OK); clause != "" {
			b, _ := json.Marshal(&c01Scenario{Layout: L2, Policy: zsimrt.OrdSorted, ExecSeed: execSeed, Events: fsv.Events, Outcome: bv})
			c.Violate(Violation{Property: "C01", Clause: clause, Key: clause + ":" + key + optTag(L2, clause), Detail: detail, Engine: "c01f", Scenario: b})
			continue
		}
		checkNeverConsulted(c, L2, bv, fsv.Events, execSeed, zsimrt.OrdSorted)
	}
	setRequiredByEnabled(L, base)
	seen := map[string]bool{}
	n := 0
	// a layout with very many I/O events is enumerated with a stride, and never past the worker's time budget
	stride := 1
	if len(events) > 60 {
		stride = (len(events) + 59) / 60
	}
	for ei, e := range events {
		if ei%stride != 0 {
			continue
		}
		if time.Now().After(c.Deadline) {
			c.Count("enumerations-cut-short-by-time-budget", 1)
			break
		}
		var kinds []string
		switch e.Op {
		case "readfile", "open":
			kinds = []string{"enoent", "eacces", "eisdir", "eio", "eio-read", "short0", "dangling"}
		case "stat", "lstat", "evalsymlinks":
			kinds = []string{"enoent", "eacces", "eisdir", "eio", "dangling"}
		case "home":
			kinds = []string{"nohome"}
		case "getwd", "abs-rel":
			kinds = []string{"nocwd"}
		default:
			continue
		}
		for _, kind := range kinds {
			for _, mode := range []string{"sticky", "from-now", "once"} {
				f := &zsimrt.Fault{Kind: kind, Path: e.Path}
				switch kind {
				case "nohome", "nocwd":
					if mode != "sticky" {
						continue
					}
					f.Path, f.Sticky = "", true
				case "short0":
					if mode != "sticky" {
						continue
					}
					f.Kind, f.Sticky, f.K = "short", true, 0 // the file is there but empty
				case "eio-read":
					if mode != "once" {
						continue
					}
					f.AtSeq = e.Seq
					f.K = len(L.Files[e.Path]) / 2
				case "dangling":
					if mode != "sticky" {
						continue
					}
					f.Sticky = true // the path is a symlink to a missing target, from the start
				default:
					switch mode {
					case "sticky":
						f.Sticky = true
					case "from-now":
						f.Sticky, f.AtSeq = true, e.Seq
					default:
						f.AtSeq = e.Seq
					}
				}
				id := fmt.Sprintf("%s|%s|%s|%d", f.Kind, f.Path, mode, f.AtSeq)
				if mode == "sticky" {
					id = fmt.Sprintf("%s|%s|sticky", f.Kind, f.Path) // the same for every event on that path
				}
				if seen[id] {
					continue
				}
				seen[id] = true
				cp := *f
				fs2 := Materialise(L)
				fs2.Faults = []*zsimrt.Fault{&cp}
				out := RunLoad(L, fs2, "", false)
				n++
				fired := false
				for _, ev := range fs2.Events {
					if ev.Fault != "" {
						fired = true
						c.Count("fault-fired:"+ev.Fault, 1)
						c.Count("matrix:"+ev.Site+" "+ev.Op+" x "+ev.Fault, 1)
					}
				}
				if fired {
					c.Nontrivial(fmt.Sprintf("%s/%s/%016x", layoutDigest(L), id, er.Digest()))
				}
				c.Count("faulted-outcome-"+out.Kind(), 1)
				c.Trace(id + ":" + out.Kind() + ":" + out.PanicAt + fmt.Sprint(len(fs2.Events)))
				if clause, key, detail := c01Judge(L, out, []*zsimrt.Fault{&cp}, fs2.Events, base.OK); clause != "" {
					b, _ := json.Marshal(&c01Scenario{Layout: L, Faults: []*zsimrt.Fault{f}, Policy: zsimrt.OrdSorted, ExecSeed: execSeed, Events: fs2.Events, Outcome: out})
					c.Violate(Violation{Property: "C01", Clause: clause, Key: clause + ":" + key + optTag(L, clause), Detail: detail, Engine: "c01f", Scenario: b})
				}
			}
		}
	}
	c.Count("single-faults-enumerated", n)
	c.Max("single-faults-per-layout", n)
	c.Sample(map[string]any{"main": L.Main, "entry": L.Entry, "io_events": len(events), "single_faults_enumerated": n, "base_outcome": base.Kind()})
}

// structurallyInPlay: p is a compose file handed to the loader, or an included file / include env_file / extends
// base file whose name occurs in a document that is itself in play, the option that skips the feature being off.
// Deliberately narrow (service env files and label files depend on profiles and on the entry point and are left
// to the event-driven enumeration).
func structurallyInPlay(L *Layout, p string, depth int) bool {
	if depth > 8 {
		return false
	}
	for _, m := range L.Main {
		if m == p {
			return true
		}
	}
	switch fileClass(p) {
	case "included-file", "include-env_file":
		if L.Opts.SkipInclude {
			return false
		}
	case "extends-base-file":
		if L.Opts.SkipExtends {
			return false
		}
	default:
		return false
	}
	var names []string
	for f := range L.Files {
		names = append(names, f)
	}
	sort.Strings(names)
	b := path.Base(p)
	for _, f := range names {
		if f == p || !(strings.HasSuffix(f, ".yaml") || strings.HasSuffix(f, ".yml")) {
			continue
		}
		// a base file's own extends is followed only for the service that somebody extends: no conclusion from
		// a reference made by a base file
		if fileClass(f) == "extends-base-file" {
			continue
		}
		if strings.Contains(L.Files[f], b) && structurallyInPlay(L, f, depth+1) {
			return true
		}
	}
	return false
}

// optionNeighbours: the layout under each option set that differs from the drawn one in exactly one flag.
func optionNeighbours(L *Layout) []*Layout {
	var out []*Layout
	flip := func(f func(o *LoadOpts)) {
		cp := *L
		f(&cp.Opts)
		out = append(out, &cp)
	}
	flip(func(o *LoadOpts) { o.SkipValidation = !o.SkipValidation })
	flip(func(o *LoadOpts) { o.SkipInterpolation = !o.SkipInterpolation })
	flip(func(o *LoadOpts) { o.SkipNormalization = !o.SkipNormalization })
	flip(func(o *LoadOpts) { o.NoResolvePaths = !o.NoResolvePaths })
	flip(func(o *LoadOpts) { o.SkipConsistencyCheck = !o.SkipConsistencyCheck })
	flip(func(o *LoadOpts) { o.SkipExtends = !o.SkipExtends })
	flip(func(o *LoadOpts) { o.SkipInclude = !o.SkipInclude })
	flip(func(o *LoadOpts) { o.SkipResolveEnvironment = !o.SkipResolveEnvironment })
	flip(func(o *LoadOpts) { o.SkipDefaultValues = !o.SkipDefaultValues })
	flip(func(o *LoadOpts) { o.DiscardEnvFiles = !o.DiscardEnvFiles })
	return out
}

// filesInPlay: the files the load of L has to look at, by class.
//   - structurally (see structurallyInPlay) among the files the generator recorded as referenced;
//   - what the loaded project itself says its enabled services read: label files always, required env files
//     unless the environment is left unresolved.
func filesInPlay(L *Layout, base *Outcome) []string {
	fromProject := map[string]bool{}
	ref := base.Project
	if L.Opts.DiscardEnvFiles && L.Entry != "model" {
		// the lists are emptied in the result when env files are discarded; the files are read all the same:
		// take the lists from a load that keeps them
		L2 := *L
		L2.Opts.DiscardEnvFiles = false
		if o := RunLoad(&L2, Materialise(&L2), "", false); o.OK {
			ref = o.Project
		} else {
			ref = nil
		}
	}
	if ref != nil && L.Entry != "model" {
		abs := func(p string) string {
			if !strings.HasPrefix(p, "/") {
				p = path.Join(L.Cwd, p)
			}
			return path.Clean(p)
		}
		for _, s := range ref.Services {
			for _, lf := range s.LabelFiles {
				fromProject[abs(lf)] = true
			}
			if !L.Opts.SkipResolveEnvironment {
				for _, ef := range s.EnvFiles {
					if ef.Required {
						fromProject[abs(ef.Path)] = true
					}
				}
			}
		}
	}
	req := append([]string(nil), L.Required...)
	for p := range fromProject {
		if _, ok := L.Files[p]; ok {
			req = append(req, p)
		}
	}
	sort.Strings(req)
	var out []string
	for i, p := range req {
		if (i > 0 && req[i-1] == p) || !(fromProject[p] || structurallyInPlay(L, p, 0)) {
			continue
		}
		out = append(out, p)
	}
	return out
}

func checkNeverConsulted(c *Ctx, L *Layout, base *Outcome, events []zsimrt.IOEvent, execSeed uint64, policy int) {
	if !base.OK {
		return
	}
	touched := map[string]bool{}
	for _, e := range events {
		touched[e.Path] = true
	}
	for _, p := range filesInPlay(L, base) {
		c.Count("referenced-files-in-play:"+fileClass(p), 1)
		if touched[p] {
			continue
		}
		f := &zsimrt.Fault{Kind: "enoent", Path: p, Sticky: true}
		cp := *f
		fs2 := Materialise(L)
		fs2.Faults = []*zsimrt.Fault{&cp}
		out := RunLoad(L, fs2, "", false)
		c.Count("absent-file-loads-for-unconsulted-references", 1)
		if clause, key, detail := judgeNeverConsulted(L, base, events, []*zsimrt.Fault{&cp}, out); clause != "" {
			b, _ := json.Marshal(&c01Scenario{Layout: L, Faults: []*zsimrt.Fault{f}, Policy: policy, ExecSeed: execSeed, Events: fs2.Events, Outcome: out})
			c.Violate(Violation{Property: "C01", Clause: clause, Key: clause + ":" + key, Detail: detail, Engine: "c01f", Scenario: b})
		}
	}
}

// judgeNeverConsulted: one referenced file, in play, made absent from the start; the fault-free load never
// looked at it and the load without it succeeds all the same.
func judgeNeverConsulted(L *Layout, base *Outcome, baseEvents []zsimrt.IOEvent, faults []*zsimrt.Fault, out *Outcome) (clause, key, detail string) {
	if len(faults) != 1 || base == nil || !base.OK || !out.OK {
		return
	}
	f := faults[0]
	if f.Kind != "enoent" || !f.Sticky || f.AtSeq != 0 {
		return
	}
	inPlay := false
	for _, p := range filesInPlay(L, base) {
		inPlay = inPlay || p == f.Path
	}
	if !inPlay {
		return
	}
	for _, e := range baseEvents {
		if e.Path == f.Path {
			return
		}
	}
	return "E1-referenced-file-never-consulted", fileClass(f.Path), fmt.Sprintf("%s is referenced by a document in play (options %+v) but the load never looks at it: absent, the load still succeeds", f.Path, L.Opts)
}

func optTag(L *Layout, clause string) string {
	if clause != "T2-panic" {
		return ""
	}
	if L.Opts.SkipValidation {
		return " [skip-validation]"
	}
	return " [validated]"
}
