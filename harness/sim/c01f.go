package sim

import (
	"encoding/json"
	"fmt"
	"time"

	"github.com/compose-spec/compose-go/v2/zsimrt"
)

// Engine c01f: single-fault ENUMERATION. One evaluation = one generated layout; its fault-free load is recorded
// and then every (I/O event, applicable fault kind, mode) single fault is injected in turn - not sampled. The
// sampled engine c01 covers multi-fault plans, content faults at drawn offsets and stub-loader faults.

func init() {
	engines["c01f"] = &engine{prop: "C01", run: c01fRun, replay: c01Replay}
}

func c01fRun(c *Ctx, r *zsimrt.Run) {
	L := c01Layout(r)
	g := &G{R: r, feat: map[string]bool{}, L: L}
	switch r.Draw("entry", 6) {
	case 0:
		L.Entry = "model"
	case 1, 2:
		L.Entry = "cli"
		c01CliTweaks(g, L)
	}
	markEnvFiles(L)
	execSeed := uint64(r.Draw("exec-seed", 1<<30)) + 1
	er := zsimrt.NewRun(execSeed)
	zsimrt.Activate(er)
	defer zsimrt.Activate(r)
	er.SetPolicy(zsimrt.OrdSorted)
	fs := Materialise(L)
	base := RunLoad(L, fs, "", true)
	c.Count("enumerated-layouts", 1)
	c.Count("outcome-"+base.Kind(), 1)
	if clause, key, detail := c01Judge(L, base, nil, fs.Events, base.OK); clause != "" {
		b, _ := json.Marshal(&c01Scenario{Layout: L, Policy: zsimrt.OrdSorted, ExecSeed: execSeed, Events: fs.Events, Outcome: base})
		c.Violate(Violation{Property: "C01", Clause: clause, Key: clause + ":" + key + optTag(L, clause), Detail: detail, Engine: "c01f", Scenario: b})
		return
	}
	setRequiredByEnabled(L, base)
	events := append([]zsimrt.IOEvent(nil), fs.Events...)
	seen := map[string]bool{}
	n := 0
	// a layout with very many I/O events is enumerated with a stride, and never past the worker's time budget
	stride := 1
	if len(events) > 60 {
		stride = (len(events) + 59) / 60
	}
	for ei, e := range events {
		if ei%stride != 0 {
			continue
		}
		if time.Now().After(c.Deadline) {
			c.Count("enumerations-cut-short-by-time-budget", 1)
			break
		}
		var kinds []string
		switch e.Op {
		case "readfile", "open":
			kinds = []string{"enoent", "eacces", "eisdir", "eio", "eio-read", "short0", "dangling"}
		case "stat", "lstat", "evalsymlinks":
			kinds = []string{"enoent", "eacces", "eisdir", "eio", "dangling"}
		case "home":
			kinds = []string{"nohome"}
		case "getwd", "abs-rel":
			kinds = []string{"nocwd"}
		default:
			continue
		}
		for _, kind := range kinds {
			for _, mode := range []string{"sticky", "from-now", "once"} {
				f := &zsimrt.Fault{Kind: kind, Path: e.Path}
				switch kind {
				case "nohome", "nocwd":
					if mode != "sticky" {
						continue
					}
					f.Path, f.Sticky = "", true
				case "short0":
					if mode != "sticky" {
						continue
					}
					f.Kind, f.Sticky, f.K = "short", true, 0 // the file is there but empty
				case "eio-read":
					if mode != "once" {
						continue
					}
					f.AtSeq = e.Seq
					f.K = len(L.Files[e.Path]) / 2
				case "dangling":
					if mode != "sticky" {
						continue
					}
					f.Sticky = true // the path is a symlink to a missing target, from the start
				default:
					switch mode {
					case "sticky":
						f.Sticky = true
					case "from-now":
						f.Sticky, f.AtSeq = true, e.Seq
					default:
						f.AtSeq = e.Seq
					}
				}
				id := fmt.Sprintf("%s|%s|%s|%d", f.Kind, f.Path, mode, f.AtSeq)
				if mode == "sticky" {
					id = fmt.Sprintf("%s|%s|sticky", f.Kind, f.Path) // the same for every event on that path
				}
				if seen[id] {
					continue
				}
				seen[id] = true
				cp := *f
				fs2 := Materialise(L)
				fs2.Faults = []*zsimrt.Fault{&cp}
				out := RunLoad(L, fs2, "", false)
				n++
				fired := false
				for _, ev := range fs2.Events {
					if ev.Fault != "" {
						fired = true
						c.Count("fault-fired:"+ev.Fault, 1)
						c.Count("matrix:"+ev.Site+" "+ev.Op+" x "+ev.Fault, 1)
					}
				}
				if fired {
					c.Nontrivial(fmt.Sprintf("%s/%s/%016x", layoutDigest(L), id, er.Digest()))
				}
				c.Count("faulted-outcome-"+out.Kind(), 1)
				c.Trace(id + ":" + out.Kind() + ":" + out.PanicAt + fmt.Sprint(len(fs2.Events)))
				if clause, key, detail := c01Judge(L, out, []*zsimrt.Fault{&cp}, fs2.Events, base.OK); clause != "" {
					b, _ := json.Marshal(&c01Scenario{Layout: L, Faults: []*zsimrt.Fault{f}, Policy: zsimrt.OrdSorted, ExecSeed: execSeed, Events: fs2.Events, Outcome: out})
					c.Violate(Violation{Property: "C01", Clause: clause, Key: clause + ":" + key + optTag(L, clause), Detail: detail, Engine: "c01f", Scenario: b})
				}
			}
		}
	}
	c.Count("single-faults-enumerated", n)
	c.Max("single-faults-per-layout", n)
	c.Sample(map[string]any{"main": L.Main, "entry": L.Entry, "io_events": len(events), "single_faults_enumerated": n, "base_outcome": base.Kind()})
}

func optTag(L *Layout, clause string) string {
	if clause != "T2-panic" {
		return ""
	}
	if L.Opts.SkipValidation {
		return " [skip-validation]"
	}
	return " [validated]"
}
