package sim

import (
	"encoding/json"
	"fmt"
	"io"
	"reflect"
	"regexp"
	"sort"
	"strings"

	"github.com/compose-spec/compose-go/v2/dotenv"
	"github.com/compose-spec/compose-go/v2/types"
	"github.com/compose-spec/compose-go/v2/zsimrt"
	"github.com/distribution/reference"
	godigest "github.com/opencontainers/go-digest"
)

func init() {
	engines["c14"] = &engine{prop: "C14", run: c14Run, replay: c14Replay}
	dotenv.RegisterFormat("simfmt", func(r io.Reader, filename string, lookup func(key string) (string, bool)) (map[string]string, error) {
		return map[string]string{"FROM_SIMFMT": filename}, nil
	})
}

// c14Step is one operation of a history.
type c14Step struct {
	Op     string   `json:"op"`
	Handle int      `json:"handle"`
	Args   []string `json:"args,omitempty"`
	Flag   bool     `json:"flag,omitempty"`
	Loc    int      `json:"loc,omitempty"`  // index into the (deterministically ordered) list of mutable locations
	How    int      `json:"how,omitempty"`  // which kind of in-place mutation
}

type c14Scenario struct {
	PopSeed  uint64    `json:"populate_seed"`
	Steps    []c14Step `json:"steps"`
	ExecSeed uint64    `json:"exec_seed"`
}

var c14Ops = []string{"WithProfiles", "WithProfiles/own-slice", "WithServicesEnabled", "WithServicesDisabled", "WithSelectedServices", "WithSelectedServices/dependents", "WithSelectedServices/ignore",
	"WithoutUnnecessaryResources", "WithServicesEnvironmentResolved", "WithServicesLabelsResolved", "WithImagesResolved", "WithServicesTransform",
	"ForEachService", "MarshalYAML", "MarshalJSON", "MarshalYAML+secrets", "MarshalJSON+secrets", "mutate", "mutate", "observe"}

func opaqueExt(path string) bool { return strings.HasSuffix(path, ".Extensions") }

// populated builds the fully populated project and the files it references.
func populated(seed uint64) (*types.Project, *zsimrt.FS) {
	r := zsimrt.NewRun(seed)
	fs := zsimrt.NewFS()
	p := &populator{draw: r.Draw}
	proj := &types.Project{}
	p.fill(reflect.ValueOf(proj).Elem(), "", 0)
	// make the populated value a coherent model: names, references, files
	fixServices := func(m types.Services, prefix string) types.Services {
		out := types.Services{}
		keys := make([]string, 0, len(m))
		for k := range m {
			keys = append(keys, k)
		}
		sort.Strings(keys)
		for i, k := range keys {
			s := m[k]
			s.Name = fmt.Sprintf("%s%d", prefix, i)
			s.Image = "img-" + s.Name
			out[s.Name] = s
		}
		return out
	}
	proj.Services = fixServices(proj.Services, "s")
	proj.DisabledServices = fixServices(proj.DisabledServices, "d")
	names := make([]string, 0)
	for n := range proj.Services {
		names = append(names, n)
	}
	sort.Strings(names)
	fileNo := 0
	sortedNames := func(m types.Services) []string {
		ks := make([]string, 0, len(m))
		for k := range m {
			ks = append(ks, k)
		}
		sort.Strings(ks)
		return ks
	}
	fixRefs := func(m types.Services) {
		for _, n := range sortedNames(m) {
			s := m[n]
			deps := types.DependsOnConfig{}
			vals := make([]types.ServiceDependency, 0)
			dk := make([]string, 0)
			for k := range s.DependsOn {
				dk = append(dk, k)
			}
			sort.Strings(dk)
			for _, k := range dk {
				vals = append(vals, s.DependsOn[k])
			}
			for i, v := range vals {
				// dependencies point to enabled services with a smaller name (acyclic); every other one is optional
				if i < len(names) && names[i] < n {
					v.Required = i%2 == 0
					deps[names[i]] = v
				}
			}
			if len(vals) > 0 && strings.HasPrefix(n, "s") {
				// an optional dependency on a service that is not enabled
				v := vals[0]
				v.Required = false
				deps["d0"] = v
			}
			s.DependsOn = deps
			for i := range s.EnvFiles {
				fileNo++
				s.EnvFiles[i].Path = fmt.Sprintf("/proj/env/f%d.env", fileNo)
				s.EnvFiles[i].Format = ""
				if i%2 == 1 {
					s.EnvFiles[i].Format = "simfmt"
				}
				fs.WriteFile(s.EnvFiles[i].Path, []byte(fmt.Sprintf("FROM_FILE_%d=value%d\n", fileNo, fileNo)))
			}
			for i := range s.LabelFiles {
				fileNo++
				s.LabelFiles[i] = fmt.Sprintf("/proj/labels/f%d.label", fileNo)
				fs.WriteFile(s.LabelFiles[i], []byte(fmt.Sprintf("label.from.file%d=v\n", fileNo)))
			}
			m[n] = s
		}
	}
	fixRefs(proj.Services)
	fixRefs(proj.DisabledServices)
	// services reference the declared top-level resources (so that pruning has something to keep)
	sorted := func(m any) []string {
		ks := []string{}
		for _, k := range reflect.ValueOf(m).MapKeys() {
			ks = append(ks, k.String())
		}
		sort.Strings(ks)
		return ks
	}
	nets, vols, secs, cfgs := sorted(proj.Networks), sorted(proj.Volumes), sorted(proj.Secrets), sorted(proj.Configs)
	link := func(m types.Services) {
		for _, n := range sortedNames(m) {
			s := m[n]
			if len(nets) > 0 && len(s.Networks) > 0 {
				nk := sorted(s.Networks)
				v := s.Networks[nk[0]]
				delete(s.Networks, nk[0])
				s.Networks[nets[0]] = v
			}
			for i := range s.Volumes {
				if i == 0 && len(vols) > 0 {
					s.Volumes[i].Type = types.VolumeTypeVolume
					s.Volumes[i].Source = vols[0]
				}
			}
			for i := range s.Secrets {
				if i == 0 && len(secs) > 0 {
					s.Secrets[i].Source = secs[0]
				}
			}
			for i := range s.Configs {
				if i == 0 && len(cfgs) > 0 {
					s.Configs[i].Source = cfgs[0]
				}
			}
			if s.Build != nil && len(s.Build.Secrets) > 0 && len(secs) > 1 {
				s.Build.Secrets[0].Source = secs[len(secs)-1]
			}
			m[n] = s
		}
	}
	link(proj.Services)
	link(proj.DisabledServices)
	proj.WorkingDir = "/proj"
	return proj, fs
}

// clone makes an independent deep copy through the fingerprint-independent route: populate again.
func c14Fresh(seed uint64) *types.Project { p, _ := populated(seed); return p }

type c14Problem struct{ clause, detail string }

var c14Allowed = map[string]*regexp.Regexp{
	"WithProfiles":                    regexp.MustCompile(`^top\.Profiles`),
	"WithServicesEnabled":             regexp.MustCompile(`^top\.Profiles|^svc\[[^\]]+\]\.(Environment|EnvFiles)`),
	"WithServicesDisabled":            regexp.MustCompile(`^svc\[[^\]]+\]\.DependsOn\[[^\]]+\]\(presence\)`),
	"WithSelectedServices":            regexp.MustCompile(`^svc\[[^\]]+\]\.DependsOn\[[^\]]+\]\(presence\)`),
	"WithoutUnnecessaryResources":     regexp.MustCompile(`^top\.(Networks|Volumes|Secrets|Configs)\[[^\]]+\]\(presence\)`),
	"WithServicesEnvironmentResolved": regexp.MustCompile(`^svc\[[^\]]+\]\.(Environment|EnvFiles)`),
	"WithServicesLabelsResolved":      regexp.MustCompile(`^svc\[[^\]]+\]\.(Labels|LabelFiles)`),
	"WithImagesResolved":              regexp.MustCompile(`^svc\[[^\]]+\]\.Image$`),
	"WithServicesTransform":           regexp.MustCompile(`^svc\[[^\]]+\]\.(Image$|Labels)`),
}

// carried lists the fields of the receiver that the result failed to carry over (outside the operation's footprint).
func carried(op string, recv, res *types.Project) []string {
	base := strings.SplitN(op, "/", 2)[0]
	allowed := c14Allowed[base]
	var bad []string
	r1, r2 := *recv, *res
	r1.Services, r1.DisabledServices, r2.Services, r2.DisabledServices = nil, nil, nil, nil
	for _, d := range Diffs(&r1, &r2, 40) {
		d = "top" + d
		if strings.HasSuffix(d, "(nil-vs-empty)") {
			continue
		}
		if allowed == nil || !allowed.MatchString(d) {
			bad = append(bad, d)
		}
	}
	a1, a2 := recv.AllServices(), res.AllServices()
	for _, d := range Diffs(map[string]types.ServiceConfig(a1), map[string]types.ServiceConfig(a2), 40) {
		d = "svc" + d
		if strings.HasSuffix(d, "(nil-vs-empty)") {
			continue
		}
		if allowed == nil || !allowed.MatchString(d) {
			bad = append(bad, d)
		}
	}
	return bad
}

var idxRe = regexp.MustCompile(`\[[^\]]*\]`)

func genC14(r *zsimrt.Run) *c14Scenario {
	sc := &c14Scenario{PopSeed: uint64(1 + r.Draw("populate-seed", 1<<20)), ExecSeed: uint64(1 + r.Draw("exec-seed", 1<<30))}
	n := 1 + r.Draw("nsteps", 5)
	handles := 1
	for i := 0; i < n; i++ {
		st := c14Step{Op: c14Ops[r.Draw("op", len(c14Ops))], Handle: r.Draw("handle", handles)}
		pool := []string{"s0", "s1", "s2", "d0", "d1", "nosuch"}
		switch strings.SplitN(st.Op, "/", 2)[0] {
		case "WithProfiles":
			st.Args = [][]string{{}, {"*"}, {"v1"}, {"dev", "*"}}[r.Draw("profiles", 4)]
		case "WithServicesEnabled", "WithServicesDisabled", "WithSelectedServices", "ForEachService":
			k := r.Draw("nargs", 3)
			for j := 0; j < k; j++ {
				st.Args = append(st.Args, pool[r.Draw("arg", len(pool))])
			}
		case "WithServicesEnvironmentResolved", "WithServicesLabelsResolved":
			st.Flag = r.Chance("discard", 1, 2)
		case "mutate":
			st.Loc = r.Draw("loc", 1<<16)
			st.How = r.Draw("how", 3)
		}
		sc.Steps = append(sc.Steps, st)
		if st.Op != "mutate" && st.Op != "observe" && !strings.HasPrefix(st.Op, "Marshal") && st.Op != "ForEachService" {
			handles++
		}
	}
	return sc
}

type c14Result struct {
	Problems []c14Problem
	Log      []string
	Derived  int
	Mutated  int
	Errors   int
	Digest   string
}

func runC14(sc *c14Scenario) *c14Result {
	out := &c14Result{}
	root, fs := populated(sc.PopSeed)
	er := zsimrt.NewRun(sc.ExecSeed)
	er.FS = fs
	zsimrt.Activate(er)
	defer zsimrt.Deactivate()
	handles := []*types.Project{root}
	model := []string{Fingerprint(root)}
	problem := func(c, d string) { out.Problems = append(out.Problems, c14Problem{c, d}) }
	checkAll := func(step int, op string, except int) {
		for j, h := range handles {
			if j == except {
				continue
			}
			if Fingerprint(h) != model[j] {
				fresh := h
				_ = fresh
				problem("handle-changed-by-foreign-operation", fmt.Sprintf("step %d (%s): project handle #%d no longer has the value the model holds for it", step, op, j))
			}
		}
	}
	for i, st := range sc.Steps {
		if st.Handle >= len(handles) {
			st.Handle = len(handles) - 1
		}
		recv := handles[st.Handle]
		base := strings.TrimSuffix(strings.SplitN(st.Op, "/", 2)[0], "+secrets")
		var res *types.Project
		var err error
		switch base {
		case "WithProfiles":
			if st.Op == "WithProfiles/own-slice" {
				// a caller re-applying the project's own profile list hands the receiver's slice in
				res, err = recv.WithProfiles(recv.Profiles)
			} else {
				res, err = recv.WithProfiles(append([]string(nil), st.Args...))
			}
		case "WithServicesEnabled":
			res, err = recv.WithServicesEnabled(st.Args...)
		case "WithServicesDisabled":
			res = recv.WithServicesDisabled(st.Args...)
		case "WithSelectedServices":
			var opts []types.DependencyOption
			switch st.Op {
			case "WithSelectedServices/dependents":
				opts = append(opts, types.IncludeDependents)
			case "WithSelectedServices/ignore":
				opts = append(opts, types.IgnoreDependencies)
			}
			res, err = recv.WithSelectedServices(append([]string(nil), st.Args...), opts...)
		case "WithoutUnnecessaryResources":
			res = recv.WithoutUnnecessaryResources()
		case "WithServicesEnvironmentResolved":
			res, err = recv.WithServicesEnvironmentResolved(st.Flag)
		case "WithServicesLabelsResolved":
			res, err = recv.WithServicesLabelsResolved(st.Flag)
		case "WithImagesResolved":
			res, err = recv.WithImagesResolved(func(named reference.Named) (godigest.Digest, error) {
				return godigest.FromString(named.String()), nil
			})
		case "WithServicesTransform":
			res, err = recv.WithServicesTransform(func(name string, s types.ServiceConfig) (types.ServiceConfig, error) {
				s.Image = "transformed-" + name
				s.Labels = types.Labels{"t": name}
				return s, nil
			})
		case "ForEachService":
			err = recv.ForEachService(append([]string(nil), st.Args...), func(name string, s *types.ServiceConfig) error {
				// the visitor scribbles over what it is given
				scribble(reflect.ValueOf(s).Elem(), 0)
				for k := range s.Labels {
					s.Labels[k] = "scribbled"
				}
				s.Labels["added-by-visitor"] = "x"
				for k := range s.DependsOn {
					delete(s.DependsOn, k)
				}
				if len(s.CapAdd) > 0 {
					s.CapAdd[0] = "scribbled"
				}
				if s.Build != nil {
					s.Build.Context = "scribbled"
				}
				return nil
			})
		case "MarshalYAML":
			if strings.HasSuffix(st.Op, "+secrets") {
				_, err = recv.MarshalYAML(types.WithSecretContent)
			} else {
				_, err = recv.MarshalYAML()
			}
		case "MarshalJSON":
			if strings.HasSuffix(st.Op, "+secrets") {
				_, err = recv.MarshalJSON(types.WithSecretContent)
			} else {
				_, err = recv.MarshalJSON()
			}
		case "mutate":
			ls := locations(recv, opaqueExt)
			if len(ls) > 0 {
				l := ls[st.Loc%len(ls)]
				how := c14Mutate(l, st.How)
				out.Log = append(out.Log, fmt.Sprintf("step %d: mutate handle #%d at %s (%s)", i, st.Handle, l.path, how))
				model[st.Handle] = Fingerprint(recv)
				out.Mutated++
			}
			checkAll(i, st.Op, st.Handle)
			continue
		case "observe":
			checkAll(i, st.Op, -1)
			continue
		default:
			panic("c14: operation not implemented in the harness: " + st.Op)
		}
		msg := fmt.Sprintf("step %d: %s(%v,%v) on handle #%d", i, st.Op, st.Args, st.Flag, st.Handle)
		if err != nil {
			out.Errors++
			msg += " -> error: " + truncate(err.Error(), 80)
		}
		out.Log = append(out.Log, msg)
		// (i) nobody changed, the receiver included
		if Fingerprint(recv) != model[st.Handle] {
			exp := c14Rebuild(sc, i, st.Handle)
			d := ""
			if exp != nil {
				d = FirstDiff(exp, recv)
			}
			problem("receiver-modified:"+base, fmt.Sprintf("%s modified its receiver (first difference %s)", st.Op, d))
			model[st.Handle] = Fingerprint(recv)
		}
		checkAll(i, st.Op, st.Handle)
		if res == nil || err != nil {
			continue
		}
		out.Derived++
		// (ii) no shared mutable state between receiver and result
		if sh := sharedRefs(recv, res, opaqueExt); len(sh) > 0 {
			cls := idxRe.ReplaceAllString(strings.SplitN(sh[0], " == ", 2)[0], "[*]")
			problem("result-aliases-receiver:"+base+":"+cls, fmt.Sprintf("%s: result shares mutable state with its receiver: %s", st.Op, strings.Join(sh[:min(len(sh), 4)], "; ")))
		}
		// (iii) everything outside the footprint is carried over
		if bad := carried(st.Op, recv, res); len(bad) > 0 {
			cls := idxRe.ReplaceAllString(bad[0], "[*]")
			problem("field-not-carried:"+base+":"+cls, fmt.Sprintf("%s: result differs from receiver outside the operation's footprint at %s", st.Op, strings.Join(bad[:min(len(bad), 5)], ", ")))
		}
		handles = append(handles, res)
		model = append(model, Fingerprint(res))
	}
	out.Digest = fmt.Sprintf("%016x", er.Digest())
	return out
}

// c14Rebuild recomputes what handle h held before step upto (for diagnostics only).
func c14Rebuild(sc *c14Scenario, upto, h int) *types.Project {
	if h == 0 {
		mut := false
		for _, st := range sc.Steps[:upto] {
			if st.Op == "mutate" && st.Handle == 0 {
				mut = true
			}
		}
		if !mut {
			return c14Fresh(sc.PopSeed)
		}
	}
	return nil
}

func c14Mutate(l location, how int) string {
	switch l.kind {
	case "ptr":
		if scribble(l.v.Elem(), 0) {
			return "pointee scribbled"
		}
	case "slice":
		if scribble(l.v.Index(0), 0) {
			return "element 0 scribbled"
		}
	case "map":
		keys := l.v.MapKeys()
		sort.Slice(keys, func(i, j int) bool { return fmt.Sprint(keys[i].Interface()) < fmt.Sprint(keys[j].Interface()) })
		if len(keys) == 0 {
			return "empty map"
		}
		k := keys[0]
		switch how {
		case 0:
			l.v.SetMapIndex(k, reflect.Value{})
			return "entry deleted"
		case 1:
			nv := reflect.New(l.v.Type().Elem()).Elem()
			nv.Set(l.v.MapIndex(k))
			if scribble(nv, 0) {
				l.v.SetMapIndex(k, nv)
				return "entry replaced"
			}
			l.v.SetMapIndex(k, reflect.Value{})
			return "entry deleted"
		default:
			if k.Kind() == reflect.String {
				nk := reflect.New(k.Type()).Elem()
				nk.SetString(k.String() + "~new")
				l.v.SetMapIndex(nk, l.v.MapIndex(k))
				return "entry added"
			}
			l.v.SetMapIndex(k, reflect.Value{})
			return "entry deleted"
		}
	}
	return "nothing"
}

func c14Run(c *Ctx, r *zsimrt.Run) {
	sc := genC14(r)
	c14Exec(c, sc, true)
}

func c14Exec(c *Ctx, sc *c14Scenario, minimise bool) {
	out := runC14(sc)
	c.Trace(out.Digest + strings.Join(out.Log, "\n") + fmt.Sprint(len(out.Problems)))
	c.Count("histories", 1)
	c.Count("derivations", out.Derived)
	c.Count("in-place-mutations", out.Mutated)
	c.Count("operation-errors", out.Errors)
	for _, st := range sc.Steps {
		c.Count("op:"+st.Op, 1)
	}
	if out.Derived > 0 && (out.Mutated > 0 || len(sc.Steps) >= 2) {
		b, _ := json.Marshal(sc.Steps)
		c.Nontrivial(fmt.Sprintf("%d/%s", sc.PopSeed, string(b)))
	}
	c.Sample(map[string]any{"scenario": sc, "log": out.Log})
	if len(out.Problems) == 0 {
		return
	}
	p := out.Problems[0]
	min := sc
	if minimise {
		min = c14Minimise(sc, p.clause)
		out = runC14(min)
		for _, q := range out.Problems {
			if q.clause == p.clause {
				p = q
			}
		}
	}
	b, _ := json.Marshal(min)
	c.Violate(Violation{Property: "C14", Clause: strings.SplitN(p.clause, ":", 2)[0], Key: p.clause, Detail: p.detail + "\nhistory:\n  " + strings.Join(out.Log, "\n  "), Engine: "c14",
		Scenario: b, Minimised: minimise, Digest: out.Digest, Notes: map[string]any{"original_steps": len(sc.Steps)}})
}

func c14Minimise(sc *c14Scenario, clause string) *c14Scenario {
	fails := func(s *c14Scenario) bool {
		for _, p := range runC14(s).Problems {
			if p.clause == clause {
				return true
			}
		}
		return false
	}
	cur := *sc
	cur.Steps = append([]c14Step(nil), sc.Steps...)
	for changed := true; changed; {
		changed = false
		for i := range cur.Steps {
			t := cur
			t.Steps = append(append([]c14Step(nil), cur.Steps[:i]...), cur.Steps[i+1:]...)
			if len(t.Steps) > 0 && fails(&t) {
				cur = t
				changed = true
				break
			}
		}
		for i := range cur.Steps {
			if len(cur.Steps[i].Args) > 0 {
				t := cur
				t.Steps = append([]c14Step(nil), cur.Steps...)
				t.Steps[i].Args = t.Steps[i].Args[:len(t.Steps[i].Args)-1]
				if fails(&t) {
					cur = t
					changed = true
				}
			}
			if cur.Steps[i].Handle > 0 {
				t := cur
				t.Steps = append([]c14Step(nil), cur.Steps...)
				t.Steps[i].Handle = 0
				if fails(&t) {
					cur = t
					changed = true
				}
			}
		}
	}
	return &cur
}

func c14Replay(c *Ctx, v *Violation) {
	var sc c14Scenario
	if err := json.Unmarshal(v.Scenario, &sc); err != nil {
		c.Count("replay-bad-file", 1)
		return
	}
	out := runC14(&sc)
	for _, p := range out.Problems {
		c.Violate(Violation{Property: "C14", Clause: strings.SplitN(p.clause, ":", 2)[0], Key: p.clause, Detail: p.detail, Engine: "c14", Digest: out.Digest})
	}
}
