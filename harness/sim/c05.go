package sim

import (
	"encoding/json"
	"fmt"
	"path"
	"reflect"
	"sort"
	"strings"

	"github.com/compose-spec/compose-go/v2/types"
	"github.com/compose-spec/compose-go/v2/zsimrt"
)

func init() {
	engines["c05"] = &engine{prop: "C05", run: c05Run, replay: c05Replay}
}

// The attribute vocabulary of the scoped C05 claim: every attribute's merge
// rule follows from the statement alone.
type c05Attrs struct {
	Image     string            `json:"image,omitempty"`
	CName     string            `json:"container_name,omitempty"`
	User      string            `json:"user,omitempty"`
	Labels    map[string]string `json:"labels,omitempty"`
	Env       map[string]string `json:"environment,omitempty"`
	CapAdd    []string          `json:"cap_add,omitempty"`
	DNS       []string          `json:"dns,omitempty"`
	Command   []string          `json:"command,omitempty"`
	BuildCtx  string            `json:"build_context,omitempty"` // relative
	Volumes   [][2]string       `json:"volumes,omitempty"`       // (relative source, target)
	EnvFiles  []string          `json:"env_files,omitempty"`     // relative
	VolLong   bool              `json:"volumes_long_syntax,omitempty"`
	BuildShort bool             `json:"build_short_syntax,omitempty"`
	BuildTargetOnly bool        `json:"build_target_only,omitempty"` // main-file extending service: `build: {target: x}`, the context is inherited
	LabelList bool              `json:"labels_as_list,omitempty"`
	// depends_on on the leaf services dep_x/dep_y/dep_z of the main file: short (list) syntax, or long syntax
	// with `condition` and optionally `required` / `restart`. A field somebody states explicitly overrides
	// what is inherited; the short syntax states condition and required.
	Deps      []c05Dep          `json:"depends_on,omitempty"`
	DepsShort bool              `json:"depends_on_short,omitempty"`
	// a label `ld` whose value holds an escaped dollar and a variable whose value holds a dollar: interpolated
	// exactly once wherever in the chain it is declared
	Dollar bool `json:"dollar_label,omitempty"`
	// tags of the override rules, meaningful on an extending service: `attr: !reset null` drops whatever was
	// inherited for attr, `!override` replaces the inherited value wholesale instead of merging
	Reset          []string `json:"reset,omitempty"` // subset of image user cap_add labels command dns
	OverrideCap    bool     `json:"override_cap_add,omitempty"`
	OverrideLabels bool     `json:"override_labels,omitempty"`
}

type c05Dep struct {
	To       string `json:"to"`
	Cond     string `json:"condition,omitempty"`
	Required *bool  `json:"required,omitempty"`
	Restart  *bool  `json:"restart,omitempty"`
}

type c05Svc struct {
	File    string   `json:"file"`
	Name    string   `json:"name"`
	Null    bool     `json:"null_body,omitempty"` // the service is written as `name:` with no value (only for attribute-less bases)
	Extra   []string `json:"extra_attrs,omitempty"` // attributes outside the vocabulary, generated from ExtraSeed: only the
	// visit-order clause looks at them (the reference resolver does not model their merge rules)
	ExtFile string   `json:"extends_file,omitempty"` // "" = same file
	ExtSvc  string   `json:"extends_service,omitempty"`
	ExtForm string   `json:"extends_form,omitempty"` // short | long | relfile | absfile
	Attrs   c05Attrs `json:"attrs"`
}

type c05Scenario struct {
	Main     string     `json:"main"`
	Svcs     []c05Svc   `json:"services"`
	KeyPerm  bool       `json:"permute_document_keys"`
	Kind     string     `json:"kind"` // "ok", "cycle", "missing-file", "missing-service", "base-is-dir"
	Victim   string     `json:"victim,omitempty"`
	VictimFile string   `json:"victim_file,omitempty"` // file declaring the victim ("" = the main file); the victim may be any link of a chain
	ExecSeed uint64     `json:"exec_seed"`
	MaxPerms int        `json:"max_perms"`
	ExtraSeed uint64    `json:"extra_seed"`
	altRequiredDefault bool // see runC05: the alternative reading used only to classify a difference
	ys                 map[string]*Y // file#service -> the node emitted for it by the last layout() call
}

// attributes that do not refer to other services or resources and are valid on any service
var c05Extras = []string{"extra_hosts", "ports", "expose", "sysctls", "ulimits", "healthcheck", "logging", "deploy", "tmpfs", "dns_search", "cap_drop",
	"annotations", "devices", "entrypoint", "hostname", "working_dir", "stop_signal", "restart", "privileged", "read_only", "mem_limit",
	"cpus", "pids_limit", "shm_size", "blkio_config", "storage_opt", "post_start", "x-ext", "develop", "gpus", "stop_grace_period"}

func (sc *c05Scenario) find(file, name string) *c05Svc {
	for i := range sc.Svcs {
		if sc.Svcs[i].File == file && sc.Svcs[i].Name == name {
			return &sc.Svcs[i]
		}
	}
	return nil
}

func genC05(r *zsimrt.Run) *c05Scenario {
	sc := &c05Scenario{Main: "/proj/compose.yaml", Kind: "ok", MaxPerms: 24}
	files := []string{sc.Main, "/proj/b0/base_f0.yaml", "/proj/deep/b1/base_f1.yaml"}
	uid := 0
	attrs := func(pos string) c05Attrs {
		a := c05Attrs{}
		on := func(l string) bool { return r.Chance("attr-"+l, 2, 5) }
		uid++
		id := fmt.Sprintf("%s%d", pos, uid)
		if on("image") {
			a.Image = "img-" + id
		}
		if on("cname") {
			a.CName = "cn-" + id
		}
		if on("user") {
			a.User = "user-" + id
		}
		if on("labels") {
			a.Labels = map[string]string{}
			for _, k := range []string{"la", "lb", "lc"} {
				if r.Chance("label-key", 1, 2) {
					a.Labels[k] = "lv-" + id
				}
			}
			a.LabelList = r.Chance("labels-list", 1, 3)
		}
		if on("env") {
			a.Env = map[string]string{}
			for _, k := range []string{"EA", "EB", "EC"} {
				if r.Chance("env-key", 1, 2) {
					a.Env[k] = "ev-" + id
				}
			}
		}
		if on("cap") {
			a.CapAdd = []string{"CAP_" + strings.ToUpper(id)}
			if r.Chance("cap2", 1, 2) {
				a.CapAdd = append(a.CapAdd, "CAP2_"+strings.ToUpper(id))
			}
		}
		if on("dns") {
			a.DNS = []string{fmt.Sprintf("10.0.%d.1", uid)}
		}
		if on("command") {
			a.Command = []string{"run", "--" + id}
		}
		if on("build") {
			a.BuildCtx = "./ctx-" + id
			a.BuildShort = r.Chance("build-short", 1, 2)
		}
		if on("volumes") {
			a.Volumes = [][2]string{{"./data-" + id, "/mnt/" + id}}
			a.VolLong = r.Chance("vol-long", 1, 2)
		}
		if on("envfile") {
			a.EnvFiles = []string{"./" + id + ".env"}
		}
		if on("deps") {
			a.DepsShort = r.Chance("deps-short", 1, 2)
			for _, t := range []string{"dep_x", "dep_y", "dep_z"} {
				if !r.Chance("dep-use", 1, 2) {
					continue
				}
				d := c05Dep{To: t}
				if !a.DepsShort {
					d.Cond = []string{"service_started", "service_healthy", "service_completed_successfully"}[r.Draw("dep-cond", 3)]
					if r.Chance("dep-req", 1, 2) {
						v := r.Chance("dep-req-v", 1, 2)
						d.Required = &v
					}
					if r.Chance("dep-restart", 1, 3) {
						v := r.Chance("dep-restart-v", 1, 2)
						d.Restart = &v
					}
				}
				a.Deps = append(a.Deps, d)
			}
		}
		if a.Labels != nil && r.Chance("dollar", 1, 3) {
			a.Dollar = true
		}
		return a
	}
	// base services (in the two base files), possibly chained
	var all []c05Svc
	for fi := 1; fi <= 2; fi++ {
		n := 1 + r.Draw("nbase", 2)
		for i := 0; i < n; i++ {
			// names are shared across files on purpose: (file, service) is the identity, not the name
			name := []string{"svc_a", "svc_b", "common"}[(i+r.Draw("base-name", 3))%3]
			for _, o := range all {
				if o.File == files[fi] && o.Name == name {
					name = fmt.Sprintf("base%d_%c", fi, 'a'+i)
				}
			}
			s := c05Svc{File: files[fi], Name: name, Attrs: attrs("b")}
			// may extend an earlier base service (same or other file)
			var cands []c05Svc
			for _, o := range all {
				cands = append(cands, o)
			}
			if len(cands) > 0 && r.Chance("base-extends", 1, 2) {
				o := cands[r.Draw("base-target", len(cands))]
				// chains that continue inside the base file itself are otherwise rare
				for _, x := range cands {
					if x.File == files[fi] && r.Chance("base-same-file", 1, 2) {
						o = x
						break
					}
				}
				s.ExtSvc = o.Name
				if o.File != s.File {
					s.ExtFile = o.File
					s.ExtForm = []string{"relfile", "absfile"}[r.Draw("base-extform", 2)]
				} else {
					s.ExtForm = []string{"short", "long"}[r.Draw("base-extform-same", 2)]
				}
			}
			all = append(all, s)
		}
	}
	nmain := 1 + r.Draw("nmain", 5)
	var mains []c05Svc
	for i := 0; i < nmain; i++ {
		s := c05Svc{File: sc.Main, Name: fmt.Sprintf("svc_%c", 'a'+i), Attrs: attrs("m")}
		switch r.Draw("main-extends", 4) {
		case 0: // plain
		case 1: // same-file (any other main service declared before it in generation order: acyclic)
			if len(mains) > 0 {
				o := mains[r.Draw("main-target", len(mains))]
				s.ExtSvc = o.Name
				s.ExtForm = []string{"short", "long"}[r.Draw("main-extform", 2)]
			}
		default:
			o := all[r.Draw("main-base", len(all))]
			s.ExtSvc, s.ExtFile = o.Name, o.File
			s.ExtForm = []string{"relfile", "absfile"}[r.Draw("main-extform-file", 2)]
		}
		mains = append(mains, s)
	}
	mainChain := len(mains) >= 2 && r.Chance("main-chain", 1, 4)
	if mainChain {
		// one chain inside the main file: svc_b extends svc_a, svc_c extends svc_b, ... (the shape the comparison
		// with the links written as separate compose files applies to)
		for i := range mains {
			if i == 0 {
				continue // the root of the chain keeps what was drawn for it (plain, or a base in another file)
			}
			mains[i].ExtSvc, mains[i].ExtFile = mains[i-1].Name, ""
			mains[i].ExtForm = []string{"short", "long"}[r.Draw("main-chain-form", 2)]
		}
	}
	// declaration order of the main services in the document is itself drawn
	for i := 0; i < len(mains)-1; i++ {
		j := i + r.Draw("decl-order", len(mains)-i)
		mains[i], mains[j] = mains[j], mains[i]
	}
	sc.Svcs = append(all, mains...)
	for i := range sc.Svcs {
		s := &sc.Svcs[i]
		if s.File == sc.Main && s.ExtSvc != "" && s.Attrs.BuildCtx == "" && r.Chance("build-target-only", 1, 3) {
			s.Attrs.BuildTargetOnly = true
		}
	}
	dotted := r.Chance("dotted-names", 1, 4)
	for i := range sc.Svcs {
		s := &sc.Svcs[i]
		if dotted && s.File == sc.Main {
			// dots are legal in service names (and are escaped in tree paths)
			old := s.Name
			s.Name = strings.Replace(old, "_", ".", 1)
			for j := range sc.Svcs {
				if sc.Svcs[j].File == sc.Main && sc.Svcs[j].ExtFile == "" && sc.Svcs[j].ExtSvc == old {
					sc.Svcs[j].ExtSvc = s.Name
				}
			}
		}
	}
	for i := range sc.Svcs {
		s := &sc.Svcs[i]
		if s.ExtSvc == "" || !r.Chance("tags", 1, 3) {
			continue
		}
		for _, a := range []string{"image", "user", "cap_add", "labels", "command", "dns"} {
			if r.Chance("reset-"+a, 1, 5) {
				s.Attrs.Reset = append(s.Attrs.Reset, a)
			}
		}
		if s.Attrs.CapAdd != nil && !contains(s.Attrs.Reset, "cap_add") && r.Chance("override-cap", 1, 2) {
			s.Attrs.OverrideCap = true
		}
		if s.Attrs.Labels != nil && !s.Attrs.LabelList && !contains(s.Attrs.Reset, "labels") && r.Chance("override-labels", 1, 2) {
			s.Attrs.OverrideLabels = true
		}
	}
	sc.KeyPerm = r.Chance("keyperm", 1, 2)
	sc.ExtraSeed = uint64(1 + r.Draw("extra-seed", 1<<30))
	if r.Chance("extras", 1, 2) {
		for i := range sc.Svcs {
			n := r.Draw("n-extra", 4)
			for j := 0; j < n; j++ {
				sc.Svcs[i].Extra = append(sc.Svcs[i].Extra, c05Extras[r.Draw("extra-attr", len(c05Extras))])
			}
		}
	}
	if mainChain || r.Chance("extra-focus", 1, 3) {
		// one attribute outside the vocabulary on every service of the scenario: its merge meets itself along every chain
		a := c05Extras[r.Draw("extra-focus-attr", len(c05Extras))]
		for i := range sc.Svcs {
			sc.Svcs[i].Extra = append(sc.Svcs[i].Extra, a)
		}
	}
	for i := range sc.Svcs {
		b, _ := json.Marshal(sc.Svcs[i].Attrs)
		if sc.Svcs[i].File != sc.Main && sc.Svcs[i].ExtSvc == "" && string(b) == "{}" && len(sc.Svcs[i].Extra) == 0 && r.Chance("null-base", 1, 2) {
			sc.Svcs[i].Null = true
		}
	}
	switch r.Draw("kind", 8) {
	case 0:
		sc.Kind = "cycle"
		// close a cycle of length 1..4 through the main file (and possibly base files)
		l := 1 + r.Draw("cycle-len", 4)
		var ring []*c05Svc
		for i := range sc.Svcs {
			if len(ring) < l && (sc.Svcs[i].File == sc.Main || r.Chance("ring-base", 1, 2)) {
				ring = append(ring, &sc.Svcs[i])
			}
		}
		// the ring must be reachable from the main file: put a main service first
		sort.SliceStable(ring, func(i, j int) bool { return ring[i].File == sc.Main && ring[j].File != sc.Main })
		if ring[0].File != sc.Main {
			sc.Kind = "ok"
			break
		}
		for i := range ring {
			ring[i].Null = false
			nx := ring[(i+1)%len(ring)]
			ring[i].ExtSvc = nx.Name
			if nx.File != ring[i].File {
				ring[i].ExtFile = nx.File
				ring[i].ExtForm = "absfile"
			} else {
				ring[i].ExtFile = ""
				ring[i].ExtForm = "long"
			}
		}
	case 1:
		// some link of a chain that starts in the main file has its base (file or service) unavailable
		reach := map[*c05Svc]bool{}
		var walk func(s *c05Svc, depth int)
		walk = func(s *c05Svc, depth int) {
			if s == nil || reach[s] || depth > 10 {
				return
			}
			reach[s] = true
			if s.ExtSvc != "" {
				f := s.ExtFile
				if f == "" {
					f = s.File
				}
				walk(sc.find(f, s.ExtSvc), depth+1)
			}
		}
		for i := range sc.Svcs {
			if sc.Svcs[i].File == sc.Main {
				walk(&sc.Svcs[i], 0)
			}
		}
		kind := []string{"missing-file", "missing-service", "base-is-dir"}[r.Draw("fault-kind", 3)]
		var cands []*c05Svc
		for i := range sc.Svcs {
			s := &sc.Svcs[i]
			if reach[s] && s.ExtSvc != "" && (kind == "missing-service" || s.ExtFile != "") {
				cands = append(cands, s)
			}
		}
		if len(cands) > 0 {
			v := cands[r.Draw("victim", len(cands))]
			// the rarest kind of link - a same-file reference inside a base file - gets half of the draws when there is one
			var inner []*c05Svc
			for _, x := range cands {
				if x.File != sc.Main && x.ExtFile == "" {
					inner = append(inner, x)
				}
			}
			if kind == "missing-service" && len(inner) > 0 && r.Chance("victim-inner", 1, 2) {
				v = inner[r.Draw("victim-inner-pick", len(inner))]
			}
			sc.Victim, sc.VictimFile, sc.Kind = v.Name, v.File, kind
		}
	}
	sc.ExecSeed = uint64(1 + r.Draw("exec-seed", 1<<30))
	return sc
}

func mapY(m map[string]string, asList bool) *Y {
	keys := make([]string, 0, len(m))
	for k := range m {
		keys = append(keys, k)
	}
	sort.Strings(keys)
	if asList {
		y := Seq()
		for _, k := range keys {
			y.Add(Str(k + "=" + m[k]))
		}
		return y
	}
	y := Map()
	for _, k := range keys {
		y.Set(k, Str(m[k]))
	}
	return y
}

func (sc *c05Scenario) layout(perm func(int) []int) *Layout {
	L := &Layout{Files: map[string]string{}, Env: map[string]string{}, Home: "/home/user", WorkingDir: "/proj", Cwd: "/proj", Entry: "loader", Main: []string{sc.Main}}
	L.Opts = LoadOpts{SkipConsistencyCheck: true, SkipResolveEnvironment: true, ProjectName: "c05"}
	docs := map[string]*Y{}
	usesDeps := false
	L.Env["C05VAR"] = "v$x"
	for _, s := range sc.Svcs {
		d := docs[s.File]
		if d == nil {
			d = Map().Set("services", Map())
			docs[s.File] = d
		}
		y := Map()
		a := s.Attrs
		if a.Image != "" {
			y.Set("image", Str(a.Image))
		}
		if a.CName != "" {
			y.Set("container_name", Str(a.CName))
		}
		if a.User != "" {
			y.Set("user", Str(a.User))
		}
		if a.Labels != nil {
			lm := a.Labels
			if a.Dollar {
				lm = map[string]string{"ld": "cost-$$5-${C05VAR}-" + s.Name}
				for k, x := range a.Labels {
					lm[k] = x
				}
			}
			y.Set("labels", mapY(lm, a.LabelList))
		}
		if len(a.Deps) > 0 {
			usesDeps = true
			if a.DepsShort {
				var ts []string
				for _, d := range a.Deps {
					ts = append(ts, d.To)
				}
				y.Set("depends_on", StrSeq(ts...))
			} else {
				dm := Map()
				for _, d := range a.Deps {
					e := Map().Set("condition", Str(d.Cond))
					if d.Required != nil {
						e.Set("required", Bool(*d.Required))
					}
					if d.Restart != nil {
						e.Set("restart", Bool(*d.Restart))
					}
					dm.Set(d.To, e)
				}
				y.Set("depends_on", dm)
			}
		}
		if a.Env != nil {
			y.Set("environment", mapY(a.Env, false))
		}
		if a.CapAdd != nil {
			y.Set("cap_add", StrSeq(a.CapAdd...))
		}
		if a.DNS != nil {
			y.Set("dns", StrSeq(a.DNS...))
		}
		if a.Command != nil {
			y.Set("command", StrSeq(a.Command...))
		}
		if a.BuildTargetOnly && a.BuildCtx == "" {
			y.Set("build", Map().Set("target", Str("stage-"+s.Name)))
		}
		if a.BuildCtx != "" && a.BuildShort {
			y.Set("build", Str(a.BuildCtx))
		} else if a.BuildCtx != "" {
			y.Set("build", Map().Set("context", Str(a.BuildCtx)).Set("target", Str("stage-"+s.Name)))
		}
		if a.Volumes != nil {
			v := Seq()
			for _, e := range a.Volumes {
				if a.VolLong {
					v.Add(Map().Set("type", Str("bind")).Set("source", Str(e[0])).Set("target", Str(e[1])))
				} else {
					v.Add(Str(e[0] + ":" + e[1]))
				}
			}
			y.Set("volumes", v)
		}
		if a.EnvFiles != nil {
			y.Set("env_file", StrSeq(a.EnvFiles...))
		}
		if a.OverrideCap && y.Get("cap_add") != nil {
			y.Get("cap_add").Tag = "!override"
		}
		if a.OverrideLabels && y.Get("labels") != nil {
			y.Get("labels").Tag = "!override"
		}
		for _, ra := range a.Reset {
			y.Set(ra, &Y{S: "null", Raw: true, Tag: "!reset"})
		}
		if s.ExtSvc != "" {
			switch s.ExtForm {
			case "short":
				y.Set("extends", Str(s.ExtSvc))
			case "long":
				y.Set("extends", Map().Set("service", Str(s.ExtSvc)))
			case "relfile":
				y.Set("extends", Map().Set("file", Str(relPath(path.Dir(s.File), s.ExtFile))).Set("service", Str(s.ExtSvc)))
			default:
				y.Set("extends", Map().Set("file", Str(s.ExtFile)).Set("service", Str(s.ExtSvc)))
			}
		}
		if len(s.Extra) > 0 {
			// deterministic per (scenario, service): the same text in every visit-order variant
			h := sc.ExtraSeed
			for _, c := range s.File + "#" + s.Name {
				h = h*1099511628211 ^ uint64(c)
			}
			g := &G{R: zsimrt.NewRun(h), feat: map[string]bool{"interpolation": false}, L: &Layout{}}
			cc := &svcCtx{name: s.Name, dir: path.Dir(s.File)}
			for _, a := range s.Extra {
				if y.Get(a) != nil {
					continue
				}
				if a == "x-ext" {
					y.Set("x-extra", g.attr(a, cc))
				} else if v := g.attr(a, cc); v != nil {
					y.Set(a, v)
				}
			}
		}
		if sc.ys == nil {
			sc.ys = map[string]*Y{}
		}
		sc.ys[s.File+"#"+s.Name] = y
		if s.Null {
			d.Get("services").Set(s.Name, Null())
			continue
		}
		d.Get("services").Set(s.Name, y)
	}
	if usesDeps && docs[sc.Main] != nil {
		for _, t := range []string{"dep_x", "dep_y", "dep_z"} {
			docs[sc.Main].Get("services").Set(t, Map().Set("image", Str("leaf")))
		}
	}
	var p func(int) []int
	if sc.KeyPerm {
		p = perm
	}
	fnames := make([]string, 0, len(docs))
	for f := range docs {
		fnames = append(fnames, f)
	}
	sort.Strings(fnames)
	for _, f := range fnames {
		L.Files[f] = Emit(docs[f], p)
	}
	return L
}

// ---- the reference resolver ("base then local", paths anchored at the defining file)

type c05Val struct {
	Image, CName, User string
	Labels, Env        map[string]string
	CapAdd, DNS        []string
	Command            []string
	BuildCtx           string
	Volumes            map[string]string // target -> absolute source
	EnvFiles           []string
	Deps               map[string]string // target -> "condition/required/restart" (after defaults)
	deps               map[string]c05Dep // explicit fields so far along the chain
}

func (sc *c05Scenario) resolve(file, name string, depth int) *c05Val {
	s := sc.find(file, name)
	v := &c05Val{Labels: map[string]string{}, Env: map[string]string{}, Volumes: map[string]string{}}
	if s == nil || depth > 12 {
		return v
	}
	if s.ExtSvc != "" {
		bf := s.File
		if s.ExtFile != "" {
			bf = s.ExtFile
		}
		b := sc.resolve(bf, s.ExtSvc, depth+1)
		// clone of the fully resolved base
		*v = *b
		v.Labels, v.Env, v.Volumes = map[string]string{}, map[string]string{}, map[string]string{}
		for k, x := range b.Labels {
			v.Labels[k] = x
		}
		for k, x := range b.Env {
			v.Env[k] = x
		}
		for k, x := range b.Volumes {
			v.Volumes[k] = x
		}
		v.CapAdd = append([]string(nil), b.CapAdd...)
		v.DNS = append([]string(nil), b.DNS...)
		v.EnvFiles = append([]string(nil), b.EnvFiles...)
		v.deps = map[string]c05Dep{}
		for k, x := range b.deps {
			v.deps[k] = x
		}
	}
	if v.deps == nil {
		v.deps = map[string]c05Dep{}
	}
	dir := path.Dir(s.File)
	a := s.Attrs
	// tags first: what is reset is neither inherited nor set locally; what is overridden is not merged
	for _, ra := range a.Reset {
		switch ra {
		case "image":
			v.Image, a.Image = "", ""
		case "user":
			v.User, a.User = "", ""
		case "cap_add":
			v.CapAdd, a.CapAdd = nil, nil
		case "labels":
			v.Labels, a.Labels = map[string]string{}, nil
		case "command":
			v.Command, a.Command = nil, nil
		case "dns":
			v.DNS, a.DNS = nil, nil
		}
	}
	if a.OverrideCap && a.CapAdd != nil {
		v.CapAdd = nil
	}
	if a.OverrideLabels && a.Labels != nil {
		v.Labels = map[string]string{}
	}
	if a.Image != "" {
		v.Image = a.Image
	}
	if a.CName != "" {
		v.CName = a.CName
	}
	if a.User != "" {
		v.User = a.User
	}
	for k, x := range a.Labels {
		v.Labels[k] = x
	}
	if a.Dollar && a.Labels != nil {
		v.Labels["ld"] = "cost-$5-v$x-" + s.Name
	}
	yes := true
	for _, d := range a.Deps {
		e := v.deps[d.To]
		e.To = d.To
		if a.DepsShort {
			e.Cond, e.Required = "service_started", &yes
		} else {
			e.Cond = d.Cond
			if d.Required != nil {
				e.Required = d.Required
			} else if sc.altRequiredDefault && s.File != sc.Main {
				e.Required = &yes
			}
			if d.Restart != nil {
				e.Restart = d.Restart
			}
		}
		v.deps[d.To] = e
	}
	v.Deps = map[string]string{}
	for k, e := range v.deps {
		req, rst := true, false
		if e.Required != nil {
			req = *e.Required
		}
		if e.Restart != nil {
			rst = *e.Restart
		}
		v.Deps[k] = fmt.Sprintf("%s/%v/%v", e.Cond, req, rst)
	}
	for k, x := range a.Env {
		v.Env[k] = x
	}
	v.CapAdd = append(v.CapAdd, a.CapAdd...)
	v.DNS = append(v.DNS, a.DNS...)
	if a.Command != nil {
		v.Command = a.Command
	}
	if a.BuildCtx != "" {
		v.BuildCtx = path.Join(dir, a.BuildCtx)
	} else if a.BuildTargetOnly && v.BuildCtx == "" {
		v.BuildCtx = dir // nothing inherited: the default context "." of the declaring (main) file
	}
	for _, e := range a.Volumes {
		v.Volumes[e[1]] = path.Join(dir, e[0])
	}
	for _, e := range a.EnvFiles {
		v.EnvFiles = append(v.EnvFiles, path.Join(dir, e))
	}
	return v
}

func projectOn(s types.ServiceConfig) *c05Val {
	v := &c05Val{Image: s.Image, CName: s.ContainerName, User: s.User, Labels: map[string]string{}, Env: map[string]string{}, Volumes: map[string]string{}}
	for k, x := range s.Labels {
		v.Labels[k] = x
	}
	for k, x := range s.Environment {
		if x != nil {
			v.Env[k] = *x
		} else {
			v.Env[k] = "<nil>"
		}
	}
	v.CapAdd = append([]string(nil), s.CapAdd...)
	v.DNS = append([]string(nil), s.DNS...)
	if s.Command != nil {
		v.Command = append([]string(nil), s.Command...)
	}
	if s.Build != nil {
		v.BuildCtx = s.Build.Context
	}
	for _, m := range s.Volumes {
		v.Volumes[m.Target] = m.Source
	}
	for _, e := range s.EnvFiles {
		v.EnvFiles = append(v.EnvFiles, e.Path)
	}
	v.Deps = map[string]string{}
	for k, d := range s.DependsOn {
		v.Deps[k] = fmt.Sprintf("%s/%v/%v", d.Condition, d.Required, d.Restart)
	}
	return v
}

func c05Diff(want, got *c05Val) string {
	norm := func(v *c05Val) *c05Val {
		c := *v
		if len(c.CapAdd) == 0 {
			c.CapAdd = nil
		}
		if len(c.DNS) == 0 {
			c.DNS = nil
		}
		if len(c.Command) == 0 {
			c.Command = nil
		}
		if len(c.EnvFiles) == 0 {
			c.EnvFiles = nil
		}
		return &c
	}
	w, g := norm(want), norm(got)
	t := reflect.TypeOf(*w)
	for i := 0; i < t.NumField(); i++ {
		if !t.Field(i).IsExported() {
			continue
		}
		a, b := reflect.ValueOf(*w).Field(i).Interface(), reflect.ValueOf(*g).Field(i).Interface()
		if !reflect.DeepEqual(a, b) {
			return fmt.Sprintf("%s: expected %v, loaded %v", t.Field(i).Name, a, b)
		}
	}
	return ""
}

// mainFileChain: name and its bases, nearest first, when every link is declared in the main file and none uses a
// tag or is written as null; nil otherwise.
func (sc *c05Scenario) mainFileChain(name string) []string {
	var chain []string
	cur := name
	for depth := 0; depth < 10; depth++ {
		s := sc.find(sc.Main, cur)
		if s == nil || s.Null || len(s.Attrs.Reset) > 0 || s.Attrs.OverrideCap || s.Attrs.OverrideLabels || s.Attrs.BuildTargetOnly {
			return nil
		}
		if y := sc.ys[sc.Main+"#"+cur]; y == nil || hasTag(y) {
			return nil
		}
		chain = append(chain, cur)
		if s.ExtSvc == "" {
			return chain
		}
		if s.ExtFile != "" && s.ExtFile != sc.Main {
			return nil
		}
		cur = s.ExtSvc
	}
	return nil
}

func hasTag(y *Y) bool {
	if y == nil {
		return false
	}
	if y.Tag != "" {
		return true
	}
	for _, v := range y.Vals {
		if hasTag(v) {
			return true
		}
	}
	return false
}

func copyY(y *Y) *Y {
	if y == nil {
		return nil
	}
	c := *y
	c.Keys = append([]string(nil), y.Keys...)
	c.Vals = nil
	for _, v := range y.Vals {
		c.Vals = append(c.Vals, copyY(v))
	}
	return &c
}

type c05Result struct {
	DiffLoads int
	Problems []c14Problem
	Loads    int
	Perms    int
	PinHits  int
	Outcome  string
	Digest   string
	Err      string
}

func permutations(n, max int, draw func(int) int) [][]int {
	var out [][]int
	total := 1
	for i := 2; i <= n; i++ {
		total *= i
	}
	if total <= max {
		var rec func(cur []int, used []bool)
		rec = func(cur []int, used []bool) {
			if len(cur) == n {
				out = append(out, append([]int(nil), cur...))
				return
			}
			for i := 0; i < n; i++ {
				if !used[i] {
					used[i] = true
					rec(append(cur, i), used)
					used[i] = false
				}
			}
		}
		rec(nil, make([]bool, n))
		return out
	}
	// identity, reverse, and drawn ones
	id := make([]int, n)
	rev := make([]int, n)
	for i := range id {
		id[i], rev[i] = i, n-1-i
	}
	out = append(out, id, rev)
	for len(out) < max {
		p := append([]int(nil), id...)
		for i := 0; i < n-1; i++ {
			j := i + draw(n-i)
			p[i], p[j] = p[j], p[i]
		}
		out = append(out, p)
	}
	return out
}

func runC05(sc *c05Scenario) *c05Result {
	out := &c05Result{}
	er := zsimrt.NewRun(sc.ExecSeed)
	zsimrt.Activate(er)
	defer zsimrt.Deactivate()
	problem := func(c, d string) { out.Problems = append(out.Problems, c14Problem{c, d}) }
	keyPerm := func(n int) []int {
		o := make([]int, n)
		for i := range o {
			o[i] = i
		}
		for i := 0; i < n-1; i++ {
			j := i + er.Draw("doc-keyperm", n-i)
			o[i], o[j] = o[j], o[i]
		}
		return o
	}
	L := sc.layout(keyPerm)
	var mains []string
	for _, s := range sc.Svcs {
		if s.File == sc.Main {
			mains = append(mains, s.Name)
		}
	}
	sort.Strings(mains)
	// faults on the simulated disk
	var victim *c05Svc
	victimTarget := ""
	if sc.Victim != "" {
		vf := sc.VictimFile
		if vf == "" {
			vf = sc.Main
		}
		victim = sc.find(vf, sc.Victim)
		if victim != nil {
			victimTarget = victim.ExtFile
			if victimTarget == "" {
				victimTarget = victim.File
			}
		}
	}
	perms := permutations(len(mains), sc.MaxPerms, func(n int) int { return er.Draw("perm", n) })
	var ref *Outcome
	var refPerm []int
	for pi, perm := range perms {
		er.ResetPolicies()
		er.SetPolicy(-1)
		if pi == 0 {
			er.SetPolicy(zsimrt.OrdSorted)
		}
		er.PinSitePrefix = "loader.ApplyExtends"
		er.PinKeys = map[string][]int{strings.Join(mains, ","): perm}
		fs := Materialise(L)
		if victim != nil {
			switch sc.Kind {
			case "missing-file":
				fs.Remove(victim.ExtFile)
			case "base-is-dir":
				fs.Remove(victim.ExtFile)
				fs.MkdirAll(victim.ExtFile)
			case "missing-service":
				// rewrite the base file without the referenced service
				sc2 := *sc
				sc2.Svcs = nil
				for _, s := range sc.Svcs {
					if !(s.File == victimTarget && s.Name == victim.ExtSvc) {
						sc2.Svcs = append(sc2.Svcs, s)
					}
				}
				L2 := sc2.layout(keyPerm)
				if txt, ok := L2.Files[victimTarget]; ok {
					fs.WriteFile(victimTarget, []byte(txt))
				} else {
					fs.WriteFile(victimTarget, []byte("services: {}\n"))
				}
			}
		}
		o := RunLoad(L, fs, "", true)
		out.Loads++
		if o.Panic != "" || o.Budget != "" || o.Both || o.Neither {
			problem("totality", o.Panic+o.Budget+" "+o.PanicAt)
			break
		}
		if pi == 0 {
			ref, refPerm = o, perm
			out.Outcome = o.Kind()
			out.Err = o.Err
			continue
		}
		if o.Kind() != ref.Kind() {
			problem("visit-order-changes-outcome", fmt.Sprintf("visit order %v: %s (%s); visit order %v: %s (%s)", refPerm, ref.Kind(), truncate(ref.Err, 100), perm, o.Kind(), truncate(o.Err, 100)))
			break
		}
		if o.OK && !reflect.DeepEqual(o.Project, ref.Project) {
			problem("visit-order-changes-project", fmt.Sprintf("visit order %v vs %v of %v: first difference %s", refPerm, perm, mains, bracketRe.ReplaceAllString(FirstDiff(ref.Project, o.Project), "[*]")))
			break
		}
	}
	out.Perms = len(perms)
	out.PinHits = er.PinHits
	out.Digest = fmt.Sprintf("%016x", er.Digest())
	if ref == nil || len(out.Problems) > 0 {
		return out
	}
	switch sc.Kind {
	case "cycle":
		if ref.OK {
			problem("cycle-accepted", "an extends cycle loaded without error")
		}
		return out
	case "missing-file", "base-is-dir":
		if ref.OK {
			problem("missing-base-file-accepted", sc.Kind+": "+victim.ExtFile)
		} else if !strings.Contains(ref.Err, path.Base(victim.ExtFile)) {
			problem("missing-base-file-not-named", ref.Err)
		}
		return out
	case "missing-service":
		if ref.OK {
			problem("missing-base-service-accepted", victim.ExtSvc+" removed from "+victimTarget+" (base of "+victim.Name+" in "+victim.File+")")
		} else if !strings.Contains(ref.Err, victim.ExtSvc) {
			problem("missing-base-service-not-named", ref.Err)
		}
		return out
	}
	if !ref.OK {
		problem("valid-extends-refused", ref.Err)
		return out
	}
	for _, name := range mains {
		svc, ok := ref.Project.Services[name]
		if !ok {
			problem("service-lost", name)
			continue
		}
		if svc.Extends != nil {
			problem("extends-attribute-kept", name)
		}
		// second oracle, for every attribute (the vocabulary and the extras alike): "applied on top by the override
		// rules" - the rules by which several compose files giving the same values for one service are merged. For
		// a chain that stays inside the main file (same directory: no path anchoring in play, and no tags) the
		// resolved service must be what the links, written as one file each and loaded base first, merge to.
		if chain := sc.mainFileChain(name); len(chain) >= 2 && len(out.Problems) == 0 {
			DL := &Layout{Files: map[string]string{}, Env: L.Env, Home: L.Home, WorkingDir: L.WorkingDir, Cwd: L.Cwd, Entry: "loader", Opts: L.Opts}
			for i := len(chain) - 1; i >= 0; i-- {
				y := copyY(sc.ys[sc.Main+"#"+chain[i]])
				y.Del("extends")
				doc := Map().Set("services", Map().Set(name, y))
				if len(DL.Main) == 0 {
					for _, t := range []string{"dep_x", "dep_y", "dep_z"} {
						doc.Get("services").Set(t, Map().Set("image", Str("leaf")))
					}
				}
				f := fmt.Sprintf("/proj/difflink_%d.yaml", len(chain)-1-i)
				DL.Files[f] = Emit(doc, nil)
				DL.Main = append(DL.Main, f)
			}
			for f, txt := range L.Files {
				if !strings.HasSuffix(f, ".yaml") {
					DL.Files[f] = txt
				}
			}
			er.ResetPolicies()
			er.SetPolicy(zsimrt.OrdSorted)
			do := RunLoad(DL, Materialise(DL), "", false)
			out.DiffLoads++
			switch {
			case !do.OK:
				problem("extends-differs-from-override-files:refused", fmt.Sprintf("service %s: chain %v loads through extends, the same links as %d compose files are refused: %s", name, chain, len(chain), truncate(do.Err, 160)))
			default:
				a, b := svc, do.Project.Services[name]
				a.Extends, b.Extends = nil, nil
				if !reflect.DeepEqual(a, b) {
					d := bracketRe.ReplaceAllString(FirstDiff(b, a), "[*]")
					field := strings.SplitN(strings.TrimPrefix(d, "."), " ", 2)[0]
					if i := strings.IndexAny(field, ".["); i > 0 {
						field = field[:i]
					}
					problem("extends-differs-from-override-files:"+field, fmt.Sprintf("service %s, chain %v: through extends vs as %d compose files (base first): %s", name, chain, len(chain), d))
				}
			}
		}
		want := sc.resolve(sc.Main, name, 0)
		if d := c05Diff(want, projectOn(svc)); d != "" {
			field := strings.SplitN(d, ":", 2)[0]
			if field == "Deps" {
				// one particular, separately recorded way of differing (see known_findings.json): a chain link declared
				// in a file other than the main one states a dependency in long syntax without `required`; that file
				// is put in canonical form (default filled in: required true) before its own extends are resolved
				sc.altRequiredDefault = true
				alt := sc.resolve(sc.Main, name, 0)
				sc.altRequiredDefault = false
				if c05Diff(alt, projectOn(svc)) == "" {
					field = "Deps:required-default-filled-in-before-the-base-file-link-is-merged"
				}
			}
			problem("differs-from-base-then-local:"+field, fmt.Sprintf("service %s: %s", name, d))
		}
	}
	return out
}

func c05Run(c *Ctx, r *zsimrt.Run) {
	sc := genC05(r)
	if c.Tier == "thorough" {
		sc.MaxPerms = 120
	}
	c05Exec(c, sc, true)
}

func c05Exec(c *Ctx, sc *c05Scenario, minimise bool) {
	out := runC05(sc)
	c.Trace(fmt.Sprintf("%s:%s:%d:%d:%d", out.Digest, out.Outcome, out.Loads, out.PinHits, len(out.Problems)))
	c.Count("scenarios", 1)
	c.Count("loads", out.Loads)
	c.Count("extends-vs-override-files-comparisons", out.DiffLoads)
	c.Count("kind-"+sc.Kind, 1)
	if sc.Kind == "missing-service" && sc.VictimFile != "" && sc.VictimFile != sc.Main {
		if v := sc.find(sc.VictimFile, sc.Victim); v != nil && v.ExtFile == "" {
			c.Count("probe:missing-base-of-a-same-file-link-inside-a-base-file", 1)
		}
	}
	c.Count("outcome-"+out.Outcome, 1)
	c.Count("pinned-visit-orders-applied", out.PinHits)
	c.Max("visit-orders-per-scenario", out.Perms)
	switch sc.Kind {
	case "cycle":
		c.Count("probe:extends-cycle", 1)
	case "missing-file", "base-is-dir", "missing-service":
		c.Count("fault-fired:"+sc.Kind, 1)
	}
	chain := 0
	for _, s := range sc.Svcs {
		if s.File == sc.Main && s.ExtSvc != "" {
			chain++
		}
	}
	if chain > 0 && out.Perms >= 2 {
		c.Nontrivial(out.Digest)
	}
	c.Sample(map[string]any{"scenario": sc, "visit_orders": out.Perms, "outcome": out.Outcome, "err": truncate(out.Err, 200)})
	if len(out.Problems) == 0 {
		return
	}
	p := out.Problems[0]
	min := sc
	if minimise {
		min = c05Minimise(sc, p.clause)
		o2 := runC05(min)
		for _, q := range o2.Problems {
			if q.clause == p.clause {
				p = q
				break
			}
		}
	}
	b, _ := json.Marshal(map[string]any{"scenario": min, "files": min.layout(nil).Files})
	c.Violate(Violation{Property: "C05", Clause: strings.SplitN(p.clause, ":", 2)[0], Key: p.clause, Detail: p.detail, Engine: "c05", Scenario: b, Minimised: minimise, Digest: out.Digest})
}

func c05Minimise(sc *c05Scenario, clause string) *c05Scenario {
	fails := func(s *c05Scenario) bool {
		defer func() { _ = recover() }()
		for _, p := range runC05(s).Problems {
			if p.clause == clause {
				return true
			}
		}
		return false
	}
	clone := func(s *c05Scenario) *c05Scenario {
		b, _ := json.Marshal(s)
		var c c05Scenario
		_ = json.Unmarshal(b, &c)
		return &c
	}
	cur := clone(sc)
	budget := 200
	referenced := func(s *c05Scenario, sv c05Svc) bool {
		for _, o := range s.Svcs {
			f := o.ExtFile
			if f == "" {
				f = o.File
			}
			if o.ExtSvc == sv.Name && f == sv.File {
				return true
			}
		}
		return false
	}
	for changed := true; changed && budget > 0; {
		changed = false
		for i := range cur.Svcs {
			if referenced(cur, cur.Svcs[i]) || cur.Svcs[i].Name == cur.Victim {
				continue
			}
			t := clone(cur)
			t.Svcs = append(t.Svcs[:i], t.Svcs[i+1:]...)
			budget--
			hasMain := false
			for _, s := range t.Svcs {
				if s.File == t.Main {
					hasMain = true
				}
			}
			if hasMain && fails(t) {
				cur, changed = t, true
				break
			}
		}
		for i := range cur.Svcs {
			a := cur.Svcs[i].Attrs
			for _, f := range []func(*c05Attrs){func(a *c05Attrs) { a.Image = "" }, func(a *c05Attrs) { a.CName = "" }, func(a *c05Attrs) { a.User = "" }, func(a *c05Attrs) { a.Labels = nil },
				func(a *c05Attrs) { a.Env = nil }, func(a *c05Attrs) { a.CapAdd = nil }, func(a *c05Attrs) { a.DNS = nil }, func(a *c05Attrs) { a.Command = nil },
				func(a *c05Attrs) { a.BuildCtx = "" }, func(a *c05Attrs) { a.Volumes = nil }, func(a *c05Attrs) { a.EnvFiles = nil }} {
				t := clone(cur)
				before, _ := json.Marshal(a)
				f(&t.Svcs[i].Attrs)
				after, _ := json.Marshal(t.Svcs[i].Attrs)
				if string(before) == string(after) {
					continue
				}
				budget--
				if fails(t) {
					cur, changed = t, true
					a = cur.Svcs[i].Attrs
				}
			}
		}
		if cur.KeyPerm {
			t := clone(cur)
			t.KeyPerm = false
			budget--
			if fails(t) {
				cur, changed = t, true
			}
		}
	}
	return cur
}

func c05Replay(c *Ctx, v *Violation) {
	var w struct {
		Scenario c05Scenario `json:"scenario"`
	}
	if err := json.Unmarshal(v.Scenario, &w); err != nil {
		c.Count("replay-bad-file", 1)
		return
	}
	out := runC05(&w.Scenario)
	for _, p := range out.Problems {
		c.Violate(Violation{Property: "C05", Clause: strings.SplitN(p.clause, ":", 2)[0], Key: p.clause, Detail: p.detail, Engine: "c05", Digest: out.Digest})
	}
}
