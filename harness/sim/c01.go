package sim

import (
	"encoding/json"
	"fmt"
	"path"
	"regexp"
	"sort"
	"strings"

	"github.com/compose-spec/compose-go/v2/zsimrt"
)

func init() {
	engines["c01"] = &engine{prop: "C01", run: c01Run, replay: c01Replay}
}

// c01Scenario is what a replay file carries for classes A and B.
type c01Scenario struct {
	Layout   *Layout         `json:"layout"`
	Faults   []*zsimrt.Fault `json:"faults,omitempty"`
	Stub     string          `json:"stub_fault,omitempty"`
	Policy   int             `json:"policy"`
	ExecSeed uint64          `json:"exec_seed"`
	Events   []zsimrt.IOEvent `json:"io_events,omitempty"`
	Outcome  *Outcome        `json:"outcome,omitempty"`
}

// ---------------------------------------------------------------- cycles

// addCycle rewrites the layout so that it contains a reference cycle.
func addCycle(g *G, L *Layout) {
	kind := g.pick("cycle-kind", []string{"extends", "extends", "extends-xfile", "extends-xfile", "include", "include", "alias", "alias", "depends_on", "depends_on", "depends_on", "alias-fanout", "alias-chain"})
	root := L.WorkingDir
	main := L.Main[0]
	switch kind {
	case "extends":
		n := 1 + g.n("cyc-len", 4)
		var b strings.Builder
		b.WriteString("services:\n")
		for i := 0; i < n; i++ {
			next := fmt.Sprintf("cyc_%d", (i+1)%n)
			if g.chance("cyc-short", 1, 2) {
				fmt.Fprintf(&b, "  cyc_%d:\n    image: x\n    extends: %s\n", i, next)
			} else {
				fmt.Fprintf(&b, "  cyc_%d:\n    image: x\n    extends:\n      service: %s\n", i, next)
			}
		}
		if g.chance("cyc-tail", 1, 2) {
			b.WriteString("  entry:\n    image: x\n    extends: cyc_0\n")
		}
		L.Files[main] = b.String()
		L.Main = L.Main[:1]
		L.Cycle = "extends"
	case "extends-xfile":
		n := 2 + g.n("cyc-len", 3)
		files := make([]string, n)
		for i := range files {
			files[i] = fmt.Sprintf("%s/cyc%d/cycle_f%d.yaml", root, i, i)
		}
		files[0] = main
		for i := 0; i < n; i++ {
			nf := files[(i+1)%n]
			rel := nf
			if g.chance("cyc-rel", 1, 2) {
				rel = relPath(path.Dir(files[i]), nf)
			}
			L.Files[files[i]] = fmt.Sprintf("services:\n  node%d:\n    image: x\n    extends:\n      file: %s\n      service: node%d\n", i, rel, (i+1)%n)
			if i > 0 {
				L.Required = append(L.Required, files[i])
			}
		}
		L.Main = L.Main[:1]
		L.Cycle = "extends"
	case "include":
		n := 1 + g.n("cyc-len", 3)
		files := make([]string, n)
		for i := range files {
			files[i] = fmt.Sprintf("%s/icyc%d/incl_cycle_f%d.yaml", root, i, i)
		}
		files[0] = main
		for i := 0; i < n; i++ {
			nf := files[(i+1)%n]
			var inc string
			switch g.n("inc-cycle-form", 6) {
			case 0:
				inc = fmt.Sprintf("  - %s\n", nf)
			case 1:
				inc = fmt.Sprintf("  - path: %s\n", nf)
			case 2:
				inc = fmt.Sprintf("  - path: [%s]\n    project_directory: %s\n", nf, path.Dir(nf))
			case 3:
				inc = fmt.Sprintf("  - path: %s\n    project_directory: %s\n", relPath(path.Dir(files[i]), nf), relPath(path.Dir(files[i]), path.Dir(nf)))
			case 4:
				// the cycle closes through an override file of the include entry, not through its first path
				side := fmt.Sprintf("%s/icyc%d/side_f%d.yaml", root, i, i)
				L.Files[side] = fmt.Sprintf("services:\n  side%d:\n    image: x\n", i)
				inc = fmt.Sprintf("  - path: [%s, %s]\n", side, nf)
			default:
				inc = fmt.Sprintf("  - path:\n      - %s\n    project_directory: %s\n", nf, path.Dir(nf))
			}
			L.Files[files[i]] = fmt.Sprintf("include:\n%sservices:\n  inode%d:\n    image: x\n", inc, i)
		}
		L.Main = L.Main[:1]
		L.Cycle = "include"
	case "alias":
		// a YAML node that contains itself
		forms := []string{
			"x-loop: &loop\n  self: *loop\nservices:\n  a:\n    image: x\n",
			"services:\n  a: &a\n    image: x\n    labels:\n      l: *a\n",
			"x-l: &l [*l]\nservices:\n  a:\n    image: x\n",
			"x-a: &a\n  b: &b\n    back: *a\nservices:\n  a:\n    image: x\n",
			"services:\n  a:\n    image: x\n    environment: &e\n      - *e\n",
			"services:\n  a:\n    image: x\n    command: &cmd [echo, *cmd]\n",
			"x-hosts: &h\n  - name: one\n    peers: *h\nservices:\n  a:\n    image: x\n",
			"x-a: &a\n  <<: *a\nservices:\n  a:\n    image: x\n",
			"&root\n<<: *root\nservices:\n  a:\n    image: x\n",
			"x-a: &a\n  k: v\n  <<: [*a]\nservices:\n  a:\n    image: x\n",
			"x-a: &a\n  b: &b\n    <<: *a\nservices:\n  a:\n    image: x\n",
		}
		L.Files[main] = forms[g.n("alias-form", len(forms))]
		L.Main = L.Main[:1]
		L.Cycle = "alias"
	case "alias-chain":
		// no fan-out: every anchor is used exactly once, N levels deep (nothing to refuse; it has to finish)
		n := 100 + g.n("chain-len", 1900)
		var b strings.Builder
		b.WriteString("x-a0: &a0 [x]\n")
		for d := 1; d <= n; d++ {
			fmt.Fprintf(&b, "x-a%d: &a%d [*a%d]\n", d, d, d-1)
		}
		b.WriteString("services:\n  a:\n    image: x\n")
		L.Files[main] = b.String()
		L.Main = L.Main[:1]
		L.Cycle = fmt.Sprintf("alias-chain:%d", n)
	case "alias-fanout":
		depth := 2 + g.n("fan-depth", 11)
		width := 2 + g.n("fan-width", 8)
		var b strings.Builder
		b.WriteString("x-a0: &a0 [x, x]\n")
		for d := 1; d <= depth; d++ {
			fmt.Fprintf(&b, "x-a%d: &a%d [", d, d)
			for w := 0; w < width; w++ {
				if w > 0 {
					b.WriteString(", ")
				}
				fmt.Fprintf(&b, "*a%d", d-1)
			}
			b.WriteString("]\n")
		}
		b.WriteString("services:\n  a:\n    image: x\n")
		L.Files[main] = b.String()
		L.Main = L.Main[:1]
		L.Cycle = fmt.Sprintf("alias-fanout:%d:%d", depth, width)
	case "depends_on":
		n := 1 + g.n("cyc-len", 4)
		var b strings.Builder
		b.WriteString("services:\n")
		implicit := false
		for i := 0; i < n; i++ {
			next := fmt.Sprintf("dep_%d", (i+1)%n)
			form := g.n("dep-form", 4)
			if form >= 2 {
				implicit = true
			}
			switch form {
			case 0:
				fmt.Fprintf(&b, "  dep_%d:\n    image: x\n    depends_on: [%s]\n", i, next)
			case 1:
				fmt.Fprintf(&b, "  dep_%d:\n    image: x\n    depends_on:\n      %s:\n        condition: service_started\n", i, next)
			case 2:
				fmt.Fprintf(&b, "  dep_%d:\n    image: x\n    links: [%s]\n", i, next)
			default:
				fmt.Fprintf(&b, "  dep_%d:\n    image: x\n    network_mode: \"service:%s\"\n", i, next)
			}
		}
		// services that lead into the cycle without being on it (their names sort before and after the ring)
		for _, tail := range []string{"aaa_tail", "zzz_tail"} {
			if g.chance("dep-tail", 1, 2) {
				fmt.Fprintf(&b, "  %s:\n    image: x\n    depends_on: [dep_%d]\n", tail, g.n("dep-tail-to", n))
			}
		}
		L.Files[main] = b.String()
		L.Main = L.Main[:1]
		L.Cycle = "depends_on"
		if implicit {
			L.Cycle = "depends_on-implicit" // links / network_mode: service:x only become dependencies through normalisation
		}
	}
}

func relPath(fromDir, to string) string {
	// both absolute, clean
	f := strings.Split(strings.Trim(fromDir, "/"), "/")
	t := strings.Split(strings.Trim(to, "/"), "/")
	i := 0
	for i < len(f) && i < len(t) && f[i] == t[i] {
		i++
	}
	return strings.Repeat("../", len(f)-i) + strings.Join(t[i:], "/")
}

// cycleMustFail says whether the cyclic layout must be refused under the options.
func cycleMustFail(L *Layout) bool {
	o := L.Opts
	switch {
	case L.Cycle == "extends":
		return !o.SkipExtends
	case L.Cycle == "include":
		return !o.SkipInclude
	case L.Cycle == "depends_on":
		return !o.SkipConsistencyCheck && L.Entry != "model"
	case L.Cycle == "depends_on-implicit":
		return !o.SkipConsistencyCheck && !o.SkipNormalization && L.Entry != "model"
	case L.Cycle == "alias":
		return true
	}
	return false
}

// ---------------------------------------------------------------- remote references (S4)

// addRemote turns one extends.file / include path into a sim:// reference.
func addRemote(g *G, L *Layout) {
	re := regexp.MustCompile(`(?m)^(\s*"?(?:file|path)"?: |\s*- )"(\.\.?/[^"]*\.yaml)"$`)
	main := L.Main[0]
	// sometimes the remote reference sits in an extends base file (nested hop) rather than in the main file
	var bases []string
	for f := range L.Files {
		if strings.Contains(f, "/base") && strings.HasSuffix(f, ".yaml") && re.MatchString(L.Files[f]) {
			bases = append(bases, f)
		}
	}
	sort.Strings(bases)
	if len(bases) > 0 && g.chance("remote-nested", 1, 2) {
		main = bases[g.n("remote-base", len(bases))]
	}
	txt := L.Files[main]
	locs := re.FindAllStringSubmatchIndex(txt, -1)
	if len(locs) == 0 {
		return
	}
	m := locs[g.n("remote-which", len(locs))]
	rel := txt[m[4]:m[5]]
	local := path.Join(path.Dir(main), rel)
	if _, ok := L.Files[local]; !ok {
		return
	}
	name := "sim://cache/" + path.Base(local)
	L.Files[main] = txt[:m[4]] + name + txt[m[5]:]
	if L.Remote == nil {
		L.Remote = map[string]string{}
	}
	L.Remote[name] = local
	L.Features = append(L.Features, "remote")
}

// ---------------------------------------------------------------- fault plans

var pathOps = map[string]bool{"readfile": true, "open": true, "stat": true, "lstat": true, "evalsymlinks": true}

func planFaults(g *G, L *Layout, events []zsimrt.IOEvent, stubCalls int) ([]*zsimrt.Fault, string) {
	var cands []zsimrt.IOEvent
	hasHome, hasCwd := false, false
	reads := map[string]int{}
	for _, e := range events {
		if pathOps[e.Op] {
			cands = append(cands, e)
			// faults are biased towards the files a document references explicitly besides compose files
			// (env files, label files, include env files): that is where "silently skipped" lives
			if strings.HasSuffix(e.Path, ".env") || strings.HasSuffix(e.Path, ".label") {
				cands = append(cands, e, e, e)
			}
			if e.Op == "readfile" || e.Op == "open" {
				reads[e.Path]++
			}
		}
		if e.Op == "home" {
			hasHome = true
		}
		if e.Op == "getwd" || e.Op == "abs-rel" {
			hasCwd = true
		}
	}
	stub := ""
	if stubCalls > 0 && g.chance("stub-fault", 1, 2) {
		stub = g.pick("stub-kind", []string{"loader-err", "loader-stale", "loader-cancel"})
	}
	var plan []*zsimrt.Fault
	n := 1
	if g.chance("multi-fault", 3, 10) {
		n = 2 + g.n("nfaults", 2)
	}
	for i := 0; i < n; i++ {
		if (hasHome || hasCwd) && g.chance("env-fault", 1, 10) {
			if hasHome && (!hasCwd || g.chance("home-or-cwd", 1, 2)) {
				plan = append(plan, &zsimrt.Fault{Kind: "nohome", Sticky: true})
			} else {
				plan = append(plan, &zsimrt.Fault{Kind: "nocwd", Sticky: true})
			}
			continue
		}
		if len(cands) == 0 {
			break
		}
		e := cands[g.n("fault-event", len(cands))]
		f := &zsimrt.Fault{Path: e.Path}
		isRead := e.Op == "readfile" || e.Op == "open"
		kinds := []string{"enoent", "enoent", "eacces", "eisdir", "eio", "dangling"}
		if isRead {
			kinds = append(kinds, "short", "short", "torn", "flip", "flip", "eio-read")
			if reads[e.Path] >= 2 {
				kinds = append(kinds, "swap", "swap")
			}
		}
		f.Kind = g.pick("fault-kind", kinds)
		if (strings.HasSuffix(e.Path, ".env") || strings.HasSuffix(e.Path, ".label")) && g.chance("absent-from-start", 1, 3) {
			f.Kind = "enoent" // the plain "file is not there" case, from the start (decided below)
		}
		data := L.Files[e.Path]
		switch f.Kind {
		case "short", "eio-read", "torn":
			f.Sticky = true
			f.K = faultOffset(g, data)
			if f.Kind == "torn" {
				f.Alt = otherContent(g, L, e.Path)
			}
			if f.Kind == "eio-read" {
				f.Sticky = false
				f.AtSeq = e.Seq
			}
		case "flip":
			f.Sticky = true
			nf := 1 + g.n("nflips", 3)
			for j := 0; j < nf; j++ {
				off := 0
				if len(data) > 0 && !strings.HasSuffix(e.Path, ".yaml") && !strings.HasSuffix(e.Path, ".yml") && g.chance("flip-last", 1, 3) {
					off = len(data) - 1 - g.n("flip-last-off", 2)%len(data) // the last bytes of env / label files
				} else if len(data) > 0 {
					off = g.n("flip-off", len(data))
					// bias towards YAML-significant bytes
					if g.chance("flip-sig", 1, 2) {
						if idx := strings.IndexAny(data[off:], ":-[]{}&*!$\"'#\n\\"); idx >= 0 {
							off += idx
						}
					}
				}
				fb := []byte(":-[]{}&*!$\"'#\n\\ \t%@`|>?,x0")
				b := fb[g.n("flip-byte", len(fb))]
				f.Flips = append(f.Flips, off, int(b))
			}
		case "swap":
			f.Sticky = true
			f.Alt = otherContent(g, L, e.Path)
		default:
			if g.chance("sticky", 6, 10) {
				f.Sticky = true
				if f.Kind == "enoent" && g.chance("enoent-parent", 1, 5) && path.Dir(e.Path) != "/" {
					f.Path = path.Dir(e.Path)
				}
				if g.chance("sticky-from-now", 1, 3) {
					f.AtSeq = e.Seq // present until this access, gone from now on
				}
			} else {
				f.AtSeq = e.Seq
			}
		}
		plan = append(plan, f)
	}
	return plan, stub
}

func faultOffset(g *G, data string) int {
	if len(data) == 0 || g.chance("off-zero", 1, 8) {
		return 0
	}
	if g.chance("off-special", 1, 3) {
		// right after one of the bytes at which scanners change state (quote, escape, expansion, comment)
		var cuts []int
		for i := 0; i < len(data); i++ {
			if strings.IndexByte("\\\"'${}#=:&*!|>-", data[i]) >= 0 {
				cuts = append(cuts, i+1)
			}
		}
		if len(cuts) > 0 {
			return cuts[g.n("off-special-which", len(cuts))]
		}
	}
	off := g.n("off", len(data))
	switch g.n("off-bias", 4) {
	case 3: // right after a backslash (an escape cut in two)
		if i := strings.IndexByte(data[off:], '\\'); i >= 0 {
			off += i + 1
		}
	case 0: // line boundary
		if i := strings.IndexByte(data[off:], '\n'); i >= 0 {
			off += i + 1
		}
	case 1: // token boundary (after a quote / colon)
		if i := strings.IndexAny(data[off:], "\":'"); i >= 0 {
			off += i + 1
		}
	}
	if off > len(data) {
		off = len(data)
	}
	return off
}

func otherContent(g *G, L *Layout, not string) string {
	var others []string
	for p := range L.Files {
		if p != not && path.Ext(p) == path.Ext(not) {
			others = append(others, p)
		}
	}
	sort.Strings(others)
	if len(others) == 0 {
		d := L.Files[not]
		return "services:\n  torn:\n    image: other\n" + d[len(d)/2:]
	}
	return L.Files[others[g.n("other-file", len(others))]]
}

// ---------------------------------------------------------------- oracle

func isRequired(L *Layout, p string) bool {
	for _, r := range L.Required {
		if r == p {
			return true
		}
	}
	return false
}

var hardFault = map[string]bool{"enoent": true, "eacces": true, "eio": true, "eisdir": true, "eio-read": true, "dangling": true}

// judge applies T1..T5 and E1 to one outcome. baseOK: the fault-free load of the same layout succeeded.
// requiredByEnabled is set by the engines before judging a faulted load: the env files that services enabled in
// the fault-free load of the same layout require (nil when that is not known: load failed, env files discarded,
// model entry point).
var requiredByEnabled map[string]bool

func setRequiredByEnabled(L *Layout, base *Outcome) {
	requiredByEnabled = nil
	if base == nil || !base.OK || base.Project == nil || L.Opts.DiscardEnvFiles || L.Opts.SkipResolveEnvironment {
		return
	}
	m := map[string]bool{}
	for _, s := range base.Project.Services {
		for _, ef := range s.EnvFiles {
			if ef.Required {
				p := ef.Path
				if !strings.HasPrefix(p, "/") {
					p = path.Join(L.Cwd, p)
				}
				m[path.Clean(p)] = true
			}
		}
	}
	requiredByEnabled = m
}

func c01Judge(L *Layout, out *Outcome, faults []*zsimrt.Fault, events []zsimrt.IOEvent, baseOK bool) (clause, key, detail string) {
	switch {
	case out.Panic != "":
		fn := out.PanicAt
		if i := strings.Index(fn, " "); i > 0 {
			fn = fn[:i]
		}
		return "T2-panic", "panic@" + fn + ": " + normMsg(out.Panic), out.PanicAt + "\n" + out.Stack
	case out.Budget != "":
		return "T4-step-budget", "budget:" + budgetClass(out.Budget) + cycleTag(L), out.Budget
	case out.Both:
		return "T1-both", "both project and error returned", out.Err
	case out.Neither:
		return "T1-neither", "neither project nor error returned", ""
	}
	if L.Cycle != "" && len(faults) == 0 && cycleMustFail(L) && out.OK {
		return "T5-cycle-accepted", "cycle accepted: " + L.Cycle, "a layout with a " + L.Cycle + " cycle loaded without error"
	}
	// E1
	if len(faults) > 0 && baseOK {
		var named []string
		for _, e := range events {
			if e.Fault == "" || !hardFault[e.Fault] {
				continue
			}
			if !isRequired(L, e.Path) {
				continue
			}
			var ft *zsimrt.Fault
			for _, f := range faults {
				if f.Kind == e.Fault && (f.Path == e.Path || strings.HasPrefix(e.Path, f.Path+"/")) {
					ft = f
				}
			}
			if ft == nil {
				continue
			}
			switch e.Op {
			case "readfile", "open":
				// the read itself failed: the load cannot have the content
			case "stat":
				// a probe: only binding when the file was unavailable from the start and was never read successfully
				if !ft.Sticky || ft.AtSeq > 0 || readOK(events, e.Path) {
					continue
				}
				// a file that some service marks optional and another requires: the probe may stem from the
				// optional reference while the requiring service is disabled by profiles and never resolved
				if isOptional(L, e.Path) {
					if req := requiredByEnabled; req != nil {
						// the fault-free load tells which env files an ENABLED service requires
						if !req[e.Path] {
							continue
						}
					} else if layoutHasProfiles(L) {
						continue
					}
				}
			default:
				continue
			}
			named = append(named, e.Path)
		}
		if len(named) > 0 {
			if out.OK {
				return "E1-fault-swallowed", "fault on required file ignored: " + fileClass(named[0]) + " via " + firstFaultSite(events), fmt.Sprintf("files %v were made unavailable, the load still succeeded", named)
			}
			ok := false
			for _, e := range events {
				if e.Fault == "" {
					continue
				}
				if !hardFault[e.Fault] || strings.Contains(out.Err, path.Base(e.Path)) {
					ok = true // another fault fired too: a content fault makes the document arbitrary; naming any faulted file is enough
				}
			}
			if !ok {
				return "E1-file-not-named", "error does not name faulted file: " + fileClass(named[0]) + " via " + firstFaultSite(events), fmt.Sprintf("files %v were made unavailable; error: %s", named, out.Err)
			}
		}
	}
	return "", "", ""
}

func isOptional(L *Layout, p string) bool {
	for _, o := range L.Mixed {
		if o == p {
			return true
		}
	}
	return false
}

func layoutHasProfiles(L *Layout) bool {
	if len(L.Opts.Profiles) > 0 {
		return true
	}
	for f, txt := range L.Files {
		if (strings.HasSuffix(f, ".yaml") || strings.HasSuffix(f, ".yml")) && strings.Contains(txt, "\"profiles\":") {
			return true
		}
	}
	return false
}

func readOK(events []zsimrt.IOEvent, p string) bool {
	for _, e := range events {
		if e.Path == p && (e.Op == "readfile" || e.Op == "open") && strings.HasPrefix(e.Res, "ok") {
			return true
		}
	}
	return false
}

func firstFaultSite(events []zsimrt.IOEvent) string {
	for _, e := range events {
		if e.Fault != "" && hardFault[e.Fault] {
			return e.Op + "@" + e.Site + "(" + e.Fault + ")"
		}
	}
	return "?"
}

func cycleTag(L *Layout) string {
	if L.Cycle != "" {
		c := L.Cycle
		if i := strings.Index(c, ":"); i > 0 {
			c = c[:i]
		}
		return " [" + c + "]"
	}
	return ""
}

func budgetClass(b string) string {
	where := ""
	if i := strings.Index(b, " in "); i > 0 {
		where = " @ " + b[i+4:]
		b = b[:i]
	}
	if i := strings.Index(b, ": "); i > 0 {
		b = b[i+2:]
	}
	if i := strings.Index(b, "="); i > 0 {
		b = b[:i]
	}
	if strings.HasPrefix(b, "io-events") {
		where = ""
	}
	return b + where
}

var numRe = regexp.MustCompile(`\d+`)
var hexRe = regexp.MustCompile(`0x[0-9a-f]+`)

var convRe = regexp.MustCompile(`interface \{\} is [^,]+, not `)

func normMsg(m string) string {
	m = convRe.ReplaceAllString(m, "interface {} is <T>, not ")
	m = hexRe.ReplaceAllString(m, "0x#")
	m = numRe.ReplaceAllString(m, "#")
	if len(m) > 100 {
		m = m[:100]
	}
	return m
}

func fileClass(p string) string {
	b := path.Base(p)
	switch {
	case strings.HasPrefix(b, "base_f"):
		return "extends-base-file"
	case strings.HasPrefix(b, "inc_") && strings.HasSuffix(b, ".yaml"):
		return "included-file"
	case strings.HasPrefix(b, "inc_") && strings.HasSuffix(b, ".env"):
		return "include-env_file"
	case strings.HasSuffix(b, ".label"):
		return "label_file"
	case strings.HasSuffix(b, ".env"):
		return "service-env_file"
	case strings.HasPrefix(b, "override_f"):
		return "override-compose-file"
	case strings.HasSuffix(b, ".yaml") || strings.HasSuffix(b, ".yml"):
		return "compose-file"
	}
	return "file"
}

// requiredEnvFiles scans the emitted documents for env_file references that
// are required (short syntax, or long syntax without required:false).
func markEnvFiles(L *Layout) {
	for p := range L.Files {
		if !strings.HasSuffix(p, ".env") || path.Base(p) == ".env" {
			continue
		}
		if strings.HasPrefix(path.Base(p), "inc_") {
			continue // include env_file: already recorded by the generator
		}
		// referenced anywhere as required?
		base := path.Base(p)
		req, opt := false, false
		for f, txt := range L.Files {
			if !(strings.HasSuffix(f, ".yaml") || strings.HasSuffix(f, ".yml")) {
				continue
			}
			idx := 0
			for {
				i := strings.Index(txt[idx:], base)
				if i < 0 {
					break
				}
				i += idx
				idx = i + len(base)
				// look at the following line for `required: false`
				rest := txt[idx:]
				nl := strings.IndexByte(rest, '\n')
				next := ""
				if nl >= 0 {
					rest2 := rest[nl+1:]
					if j := strings.IndexByte(rest2, '\n'); j >= 0 {
						next = rest2[:j]
					} else {
						next = rest2
					}
				}
				// the entry is a small mapping {path, required, format} whose keys may come in any order
				prevLine := ""
				if ls := strings.LastIndexByte(txt[:i], '\n'); ls > 0 {
					if ps := strings.LastIndexByte(txt[:ls], '\n'); ps >= 0 {
						prevLine = txt[ps+1 : ls]
					}
				}
				if strings.Contains(next, "\"required\": false") || strings.Contains(prevLine, "\"required\": false") {
					opt = true
					continue
				}
				req = true
			}
		}
		if req && opt {
			L.Mixed = append(L.Mixed, p)
		}
		if req {
			L.Required = append(L.Required, p)
		} else {
			L.Optional = append(L.Optional, p)
		}
	}
	sort.Strings(L.Required)
	sort.Strings(L.Optional)
}

// ---------------------------------------------------------------- the run

// c01Layout: mostly general layouts, one in five an attribute-stress layout (see c02Layout)
func c01Layout(r *zsimrt.Run) *Layout {
	if r.Chance("c01-stress", 1, 5) {
		return GenLayoutForced(r, map[string]bool{"stress": true, "override": true, "profiles-opt": false, "env_file": true, "label_file": true})
	}
	return GenLayout(r)
}

func c01Run(c *Ctx, r *zsimrt.Run) {
	L := c01Layout(r)
	g := &G{R: r, feat: map[string]bool{}, L: L}
	class := "A"
	if r.Chance("class-cycle", 1, 5) {
		addCycle(g, L)
		class = "A-cycle"
	} else if r.Chance("remote", 1, 5) {
		addRemote(g, L)
	} else if r.Chance("dense-dag", 1, 30) {
		addDenseDAG(g, L)
		class = "A-dense"
	} else if r.Chance("long-input", 1, 25) {
		addLongInput(g, L)
		class = "A-long"
	}
	switch r.Draw("entry", 10) {
	case 0:
		L.Entry = "model"
	case 1, 2:
		L.Entry = "cli"
		c01CliTweaks(g, L)
	}
	markEnvFiles(L)
	sc := &c01Scenario{Layout: L, Policy: -1, ExecSeed: uint64(r.Draw("exec-seed", 1<<30)) + 1}
	c01Exec(c, r, sc, class, true)
}

// c01CliTweaks prepares what only the cli entry point reads: .env, OS environment, default file discovery.
func c01CliTweaks(g *G, L *Layout) {
	if g.chance("cli-dotenv", 1, 2) {
		L.Files[L.WorkingDir+"/.env"] = g.envFileContent("dotenv", nil) + "COMPOSE_PROJECT_NAME=fromdotenv\n"
	}
	L.OSEnv = []string{"PATH=/bin", "HOME=" + L.Home}
	if g.chance("cli-profiles-env", 1, 2) {
		// active profiles come from COMPOSE_PROFILES through cli.WithDefaultProfiles()
		L.CliProfilesFromEnv = true
		if len(L.Opts.Profiles) > 0 {
			L.OSEnv = append(L.OSEnv, "COMPOSE_PROFILES="+strings.Join(L.Opts.Profiles, ","))
			L.Opts.Profiles = nil
		}
		// a program may well build its list of option functions once and use it for every load
		L.CliSharedOptionFns = g.chance("cli-shared-fns", 1, 2)
	}
	if g.chance("cli-env-files", 1, 3) {
		// explicit --env-file arguments: explicitly referenced files, a missing one must be reported
		n := 1 + g.n("cli-nenvfiles", 2)
		for i := 0; i < n; i++ {
			p := fmt.Sprintf("%s/cli_env_f%d.env", L.WorkingDir, i)
			L.Files[p] = g.envFileContent("cli-envfile", nil)
			L.CliEnvFiles = append(L.CliEnvFiles, p)
			L.Required = append(L.Required, p)
		}
	}
	if g.chance("cli-stdin", 1, 6) && len(L.Main) == 1 {
		// the compose file comes from standard input
		L.Stdin = L.Files[L.Main[0]]
		var req []string
		for _, p := range L.Required {
			if p != L.Main[0] {
				req = append(req, p)
			}
		}
		L.Required = req
		L.Main = []string{"-"}
		return
	}
	if g.chance("cli-osenv-name", 1, 3) {
		L.OSEnv = append(L.OSEnv, "COMPOSE_PROJECT_NAME=fromos")
	}
	if g.chance("cli-compose-file-env", 1, 4) {
		files := append([]string(nil), L.Main...)
		if len(files) >= 2 && g.chance("cli-compose-file-repeat", 1, 3) {
			// the same file named twice (here: first and last): loaded, and merged, in the order given
			files = append(files, files[0])
		}
		L.OSEnv = append(L.OSEnv, "COMPOSE_FILE="+strings.Join(files, ":"))
		L.Main = nil
	} else if g.chance("cli-default-path", 1, 4) && len(L.Main) == 1 {
		// discovered from the working directory: an implicitly probed file, not an explicitly referenced one
		var req []string
		for _, p := range L.Required {
			if p != L.Main[0] {
				req = append(req, p)
			}
		}
		L.Required = req
		L.Main = nil
		L.Cwd = L.WorkingDir
	}
}

// c01Exec runs the fault-free load, then (class B) the faulted load, and judges both.
// Every draw made while loading comes from a sub-run seeded by sc.ExecSeed, so a
// replay of the materialised scenario repeats the same map orders exactly.
func c01Exec(c *Ctx, r *zsimrt.Run, sc *c01Scenario, class string, plan bool) {
	L := sc.Layout
	er := zsimrt.NewRun(sc.ExecSeed)
	zsimrt.Activate(er)
	defer func() {
		if r != nil {
			zsimrt.Activate(r)
		}
	}()
	er.SetPolicy(sc.Policy)
	fs := Materialise(L)
	base := RunLoad(L, fs, "", true)
	c.Trace(fmt.Sprintf("base:%s:%s:%d", base.Kind(), base.PanicAt, base.IOEvents))
	defer func() { c.Trace(fmt.Sprintf("exec:%016x", er.Digest())) }()
	c.Count("class-"+class, 1)
	c.Count("outcome-"+base.Kind(), 1)
	c.Count("entry-"+L.Entry, 1)
	c.Max("steps-per-load", int(base.Steps))
	c.Max("map-ranges-per-load", int(base.KeysCalls))
	c.Max("io-events-per-load", base.IOEvents)
	c.Max("call-depth-per-load", base.MaxDepth)
	if L.Cycle != "" {
		c.Count("probe:cycle-"+strings.SplitN(L.Cycle, ":", 2)[0], 1)
	}
	report := func(out *Outcome, clause, key, detail string, events []zsimrt.IOEvent) {
		s2 := *sc
		s2.Events = events
		s2.Outcome = out
		b, _ := json.Marshal(&s2)
		if clause == "T2-panic" {
			if L.Opts.SkipValidation {
				key += " [skip-validation]"
			} else {
				key += " [validated]"
			}
		}
		c.Violate(Violation{Property: "C01", Clause: clause, Key: clause + ":" + key, Detail: detail, Engine: "c01", Scenario: b})
	}
	replaying := !plan
	if !replaying || (len(sc.Faults) == 0 && sc.Stub == "") {
		if clause, key, detail := c01Judge(L, base, nil, fs.Events, base.OK); clause != "" {
			report(base, clause, key, detail, fs.Events)
			return
		}
	}
	if plan {
		checkNeverConsulted(c, L, base, fs.Events, sc.ExecSeed, sc.Policy)
		if L.Cycle != "" {
			c.Nontrivial("cycle/" + layoutDigest(L))
			c.Sample(map[string]any{"main": L.Main, "cycle": L.Cycle, "opts": L.Opts, "outcome": base.Kind(), "err": truncate(base.Err, 200)})
			return
		}
		if !r.Chance("class-B", 2, 3) {
			return
		}
		g := &G{R: r, feat: map[string]bool{}, L: L}
		sc.Faults, sc.Stub = planFaults(g, L, fs.Events, len(L.Remote))
	}
	if len(sc.Faults) == 0 && sc.Stub == "" {
		return
	}
	// fresh copies of the faults (Fired counters start at zero)
	var faults []*zsimrt.Fault
	for _, f := range sc.Faults {
		cp := *f
		cp.Fired = 0
		faults = append(faults, &cp)
	}
	fs2 := Materialise(L)
	fs2.Faults = faults
	out := RunLoad(L, fs2, sc.Stub, true)
	c.Trace(fmt.Sprintf("faulted:%s:%s:%d", out.Kind(), out.PanicAt, len(fs2.Events)))
	c.Count("class-B", 1)
	c.Count("faulted-outcome-"+out.Kind(), 1)
	fired := 0
	for _, e := range fs2.Events {
		if e.Fault != "" {
			fired++
			c.Count("fault-fired:"+e.Fault, 1)
			c.Count("matrix:"+e.Site+" "+e.Op+" x "+e.Fault, 1)
			if e.Fault != "enoent" && e.Op == "open" {
				c.Count("probe:stat-ok-then-open-fails", 1)
			}
		}
	}
	if sc.Stub != "" {
		c.Count("fault-fired:"+sc.Stub, 1)
	}
	for _, f := range faults {
		if f.Kind == "swap" && f.Fired > 0 {
			c.Count("probe:content-changed-between-two-reads", 1)
		}
	}
	if fired > 0 || sc.Stub != "" {
		c.Nontrivial("B/" + layoutDigest(L) + fmt.Sprintf("/%016x", er.Digest()))
		c.Sample(map[string]any{"main": L.Main, "entry": L.Entry, "features": L.Features, "faults": sc.Faults, "stub": sc.Stub, "base_outcome": base.Kind(), "faulted_outcome": out.Kind(), "faulted_err": truncate(out.Err, 200)})
	}
	setRequiredByEnabled(L, base)
	if clause, key, detail := c01Judge(L, out, faults, fs2.Events, base.OK); clause != "" {
		report(out, clause, key, detail, fs2.Events)
	} else if clause, key, detail := judgeNeverConsulted(L, base, fs.Events, faults, out); clause != "" {
		report(out, clause, key, detail, fs2.Events)
	}
}

func truncate(s string, n int) string {
	if len(s) > n {
		return s[:n]
	}
	return s
}

func c01Replay(c *Ctx, v *Violation) {
	var sc c01Scenario
	if err := json.Unmarshal(v.Scenario, &sc); err != nil || sc.Layout == nil {
		c.Count("replay-bad-file", 1)
		return
	}
	// the materialised scenario (layout, fault plan, policy, exec seed) is executed as recorded
	sc.Events, sc.Outcome = nil, nil
	c01Exec(c, nil, &sc, "replay", false)
}
