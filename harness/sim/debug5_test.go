package sim

import (
	"fmt"
	"os"
	"testing"

	"github.com/compose-spec/compose-go/v2/zsimrt"
)

func TestDebugResolverCache(t *testing.T) {
	if os.Getenv("VERIF_DEBUG_RC") == "" {
		t.Skip()
	}
	A := &Layout{Files: map[string]string{
		"/proj/compose.yaml":      "services:\n  app:\n    extends:\n      file: ./base1/base_f1.yaml\n      service: common\n",
		"/proj/base1/base_f1.yaml": "services:\n  common:\n    image: alpine\n",
	}, Main: []string{"/proj/compose.yaml"}, WorkingDir: "/proj", Cwd: "/proj", Env: map[string]string{}, Opts: LoadOpts{ProjectName: "a", NoStubLoader: true}}
	B := &Layout{Files: map[string]string{
		"/srv/compose.yaml":       "services:\n  web:\n    extends:\n      file: ./base1/base_f1.yaml\n      service: base\n",
		"/srv/base1/base_f1.yaml": "services:\n  base:\n    command: [serve]\n    extends:\n      file: sim://cache/lib.yaml\n      service: lib\n",
		"/srv/cache/lib.yaml":     "services:\n  lib:\n    image: lib-image\n",
	}, Main: []string{"/srv/compose.yaml"}, WorkingDir: "/srv", Cwd: "/srv", Env: map[string]string{}, Opts: LoadOpts{ProjectName: "b"}, Remote: map[string]string{"sim://cache/lib.yaml": "/srv/cache/lib.yaml"}}
	r := zsimrt.NewRun(1)
	zsimrt.Activate(r)
	r.SetPolicy(zsimrt.OrdSorted)
	if os.Getenv("VERIF_DEBUG_RC") == "AB" {
		o := RunLoad(A, Materialise(A), "", false)
		fmt.Println("A:", o.Kind(), o.Err)
	}
	o := RunLoad(B, Materialise(B), "", false)
	fmt.Println("B:", o.Kind(), o.Err)
}
