package sim

import (
	"fmt"
	"path"
	"sort"
	"strings"

	"github.com/compose-spec/compose-go/v2/zsimrt"
)

// Layout is a fully materialised scenario for a load: a file tree, the entry
// files, environment and options. It is what replay files carry.
type Layout struct {
	Files      map[string]string `json:"files"`
	Dirs       []string          `json:"dirs,omitempty"`
	WorkingDir string            `json:"working_dir"`
	Cwd        string            `json:"cwd"`
	Home       string            `json:"home"`
	Main       []string          `json:"main"` // compose files passed to the loader
	Env        map[string]string `json:"env"`
	OSEnv      []string          `json:"os_env,omitempty"`
	Opts       LoadOpts          `json:"opts"`
	Entry      string            `json:"entry"` // "loader", "model", "cli"
	// bookkeeping for oracles
	Required   []string `json:"required,omitempty"`   // files explicitly referenced: a fault on them must be reported
	Optional   []string `json:"optional,omitempty"`   // env files with required:false
	Mixed      []string `json:"mixed,omitempty"`      // env files required by one reference and optional for another
	Cycle      string   `json:"cycle,omitempty"`      // "", "extends", "include", "alias", "depends_on"
	Features   []string `json:"features,omitempty"`
	Remote     map[string]string `json:"remote,omitempty"` // sim://name -> local path (stub ResourceLoader)
	CliEnvFiles []string `json:"cli_env_files,omitempty"` // explicit --env-file arguments (cli entry)
	Stdin      string   `json:"stdin,omitempty"`         // content served on standard input (compose file "-")
	CliProfilesFromEnv bool `json:"cli_profiles_from_env,omitempty"` // cli entry: cli.WithDefaultProfiles() (COMPOSE_PROFILES) instead of explicit profiles
	CliSharedOptionFns bool `json:"cli_shared_option_fns,omitempty"` // cli entry: option function VALUES built once per process and reused for every load
}

type LoadOpts struct {
	SkipValidation         bool     `json:"skip_validation,omitempty"`
	SkipInterpolation      bool     `json:"skip_interpolation,omitempty"`
	SkipNormalization      bool     `json:"skip_normalization,omitempty"`
	NoResolvePaths         bool     `json:"no_resolve_paths,omitempty"`
	ConvertWindowsPaths    bool     `json:"convert_windows_paths,omitempty"`
	SkipConsistencyCheck   bool     `json:"skip_consistency_check,omitempty"`
	SkipExtends            bool     `json:"skip_extends,omitempty"`
	SkipInclude            bool     `json:"skip_include,omitempty"`
	SkipResolveEnvironment bool     `json:"skip_resolve_environment,omitempty"`
	SkipDefaultValues      bool     `json:"skip_default_values,omitempty"`
	DiscardEnvFiles        bool     `json:"discard_env_files,omitempty"`
	Profiles               []string `json:"profiles,omitempty"`
	ProjectName            string   `json:"project_name,omitempty"`
	NameImperative         bool     `json:"name_imperative,omitempty"`
	NoStubLoader           bool     `json:"no_stub_loader,omitempty"` // the remote ResourceLoader is not registered for this load
}

// G wraps the choice source with generator helpers.
type G struct {
	R    *zsimrt.Run
	feat map[string]bool
	L    *Layout
	uid  int
	// focus is the layout's focus attribute: it is written, with fresh draws, on every service in every file
	// (main, overrides, bases), so that one attribute's merge / transform / decode rules meet many
	// spellings in one load; the focus rotates over all attributes from run to run
	focus string
}

func (g *G) n(label string, n int) int { return g.R.Draw(label, n) }
func (g *G) chance(label string, num, den int) bool {
	return g.R.Draw(label, den) < num
}
func (g *G) pick(label string, xs []string) string { return xs[g.n(label, len(xs))] }

// on reports whether a swarm feature is enabled in this run.
func (g *G) on(f string) bool {
	v, ok := g.feat[f]
	if !ok {
		v = g.chance("feat:"+f, 1, 2)
		if f == "conflicts" {
			v = g.chance("feat-rare:"+f, 1, 6)
		}
		g.feat[f] = v
		if v {
			g.L.Features = append(g.L.Features, f)
		}
	}
	return v
}

func (g *G) id(prefix string) string { g.uid++; return fmt.Sprintf("%s%d", prefix, g.uid) }

var words = []string{"alpha", "beta", "gamma", "delta", "eps", "zeta", "eta", "theta"}

func (g *G) word(l string) string { return g.pick(l, words) }

// ---- attribute menu: each returns a value for attribute `a` of a service.
// variant lets an override produce a different spelling/value for the same key.

type svcCtx struct {
	name     string
	others   []string // services that may be referenced (declared earlier => acyclic)
	networks []string
	volumes  []string
	secrets  []string
	configs  []string
	dir      string // directory of the file the service is written in (for relative paths)
	envFiles []string
	lblFiles []string
	vars     []string // interpolation variables available
}

func (g *G) interp(s string, c *svcCtx) *Y {
	if len(c.vars) > 0 && g.on("interpolation") && g.chance("interp", 1, 4) {
		v := g.pick("interp-var", c.vars)
		switch g.n("interp-form", 9) {
		case 0:
			return Str("${" + v + "}")
		case 1:
			return Str("${" + v + ":-" + s + "}")
		case 2:
			return Str("${" + v + "-" + s + "}")
		case 3:
			return Str("${" + v + ":?must be set}")
		case 4:
			return Str("${" + v + "?must be set}")
		case 5:
			return Str(s + "${" + v + ":+-alt}")
		case 6:
			return Str(s + "${UNSET_X+-alt}${UNSET_Y:-" + "-dflt}")
		case 7:
			// a dollar that is not a substitution: escaped, or simply the last character
			return Str([]string{"^" + s + "$", s + "$$" + v, "$$" + s, s + " costs 5$"}[g.n("interp-dollar", 4)])
		default:
			return Str(s + "-$" + v)
		}
	}
	return Str(s)
}

// num spells an integer attribute as a YAML integer, as a quoted string, or through a variable:
// the loader's cast table (looked up by ranging over a map of path patterns) must give the same value.
func (g *G) num(v int, c *svcCtx) *Y {
	switch g.n("num-form", 6) {
	case 0:
		return Str(fmt.Sprint(v))
	case 1:
		if g.on("interpolation") {
			return Str(fmt.Sprintf("${UNSET_NUM:-%d}", v))
		}
	}
	return Int(v)
}

func (g *G) kvMapOrList(label string, c *svcCtx, keys []string) *Y {
	n := 1 + g.n(label+"-n", 3)
	if g.chance(label+"-large", 1, 10) {
		// a large mapping: more than a dozen entries
		y := Map()
		m := 13 + g.n(label+"-large-n", 10)
		for i := 0; i < m; i++ {
			k := fmt.Sprintf("%s_%02d", keys[i%len(keys)], (i*5)%m)
			if i%5 == 0 {
				y.Set(k, Null())
			} else {
				y.Set(k, Str(fmt.Sprintf("v%d", i)))
			}
		}
		return y
	}
	if g.chance(label+"-list", 1, 2) {
		y := Seq()
		off := g.n(label+"-koff", len(keys))
		for i := 0; i < n; i++ {
			k := keys[(off+i)%len(keys)]
			if g.chance(label+"-noval", 1, 6) {
				y.Add(Str(k))
			} else {
				y.Add(Str(k + "=" + g.word(label+"-v")))
			}
		}
		return y
	}
	y := Map()
	for i := 0; i < n; i++ {
		k := g.pick(label+"-k", keys)
		switch g.n(label+"-vk", 6) {
		case 0:
			y.Set(k, Int(g.n(label+"-iv", 100)))
		case 1, 2:
			y.Set(k, Null())
		default:
			y.Set(k, g.interp(g.word(label+"-v"), c))
		}
	}
	return y
}

var envKeys = []string{"FOO", "BAR", "BAZ", "QUX", "DEBUG", "MODE"}
var labelKeys = []string{"com.example.a", "com.example.b", "org.label.c", "tier"}

func (g *G) attr(a string, c *svcCtx) *Y {
	switch a {
	case "image":
		return g.interp("img-"+g.word("img"), c)
	case "build":
		if g.chance("build-short", 1, 3) {
			return Str("./" + g.word("ctx"))
		}
		b := Map().Set("context", Str(g.pick("ctxform", []string{"./ctx", "ctx/sub", "../up", ".", "/abs/ctx", "https://github.com/x/y.git"})))
		if g.chance("b-df", 1, 2) {
			b.Set("dockerfile", Str("Dockerfile."+g.word("df")))
		}
		if g.chance("b-args", 1, 2) {
			b.Set("args", g.kvMapOrList("bargs", c, envKeys))
		}
		if g.chance("b-labels", 1, 3) {
			b.Set("labels", g.kvMapOrList("blabels", c, labelKeys))
		}
		if g.chance("b-addctx", 1, 4) {
			b.Set("additional_contexts", Map().Set("extra", Str("./extra")).Set("remote", Str("docker-image://busybox")))
		}
		if g.chance("b-ssh", 1, 4) {
			b.Set("ssh", StrSeq("default", "k1=./keys/id"))
		}
		if len(c.secrets) > 0 && g.chance("b-sec", 1, 4) {
			b.Set("secrets", StrSeq(c.secrets[0]))
		}
		if g.chance("b-tags", 1, 4) {
			b.Set("tags", StrSeq("t:1", "t:2"))
		}
		if g.chance("b-ulimits", 1, 6) {
			b.Set("ulimits", Map().Set("nofile", Int(1024)))
		}
		return b
	case "command", "entrypoint":
		if g.chance(a+"-list", 1, 2) {
			return StrSeq("run", "--"+g.word("cmd"))
		}
		return Str("run --" + g.word("cmd") + " 'quoted arg'")
	case "environment":
		return g.kvMapOrList("env", c, envKeys)
	case "labels", "annotations":
		return g.kvMapOrList(a, c, labelKeys)
	case "env_file":
		if len(c.envFiles) == 0 {
			return nil
		}
		f := func(p string) string { return relTo(c.dir, p) }
		// each service lists its own drawn selection of the env files, in its own order
		files := append([]string(nil), c.envFiles...)
		for i := 0; i < len(files)-1; i++ {
			j := i + g.n("envfile-order", len(files)-i)
			files[i], files[j] = files[j], files[i]
		}
		files = files[:1+g.n("envfile-count", len(files))]
		c = &svcCtx{dir: c.dir, envFiles: files}
		switch g.n("envfile-form", 3) {
		case 0:
			return Str(f(c.envFiles[0]))
		case 1:
			y := Seq()
			for _, p := range c.envFiles {
				y.Add(Str(f(p)))
			}
			return y
		default:
			y := Seq()
			for _, p := range c.envFiles {
				m := Map().Set("path", Str(f(p)))
				switch g.n("envfile-required", 3) {
				case 0:
					m.Set("required", Bool(true))
				case 1:
					m.Set("required", Bool(false)) // optional for this service; another service may still require it
				}
				if g.chance("envfile-fmt", 1, 4) {
					m.Set("format", Str("raw"))
					m.Del("format") // no custom format is registered: keep the shape legal
				}
				y.Add(m)
			}
			return y
		}
	case "label_file":
		if len(c.lblFiles) == 0 {
			return nil
		}
		y := Seq()
		for _, p := range c.lblFiles {
			y.Add(Str(relTo(c.dir, p)))
		}
		return y
	case "ports":
		y := Seq()
		n := 1 + g.n("ports-n", 3)
		for i := 0; i < n; i++ {
			switch g.n("port-form", 5) {
			case 0:
				y.Add(Int(3000 + g.n("port", 5)))
			case 1:
				y.Add(Str(fmt.Sprintf("%d:%d", 8000+g.n("port", 5), 80)))
			case 2:
				y.Add(Str("127.0.0.1:9000-9002:9000-9002/udp"))
			case 3:
				y.Add(Str("4000-4003"))
			default:
				m := Map().Set("target", g.num(80+g.n("port", 3), c)).Set("published", Str(fmt.Sprint(8080+g.n("port", 3))))
				if g.chance("port-proto", 1, 2) {
					m.Set("protocol", Str("udp"))
				}
				if g.chance("port-mode", 1, 3) {
					m.Set("mode", Str("host"))
				}
				y.Add(m)
			}
		}
		return y
	case "expose":
		return Seq(Str("3000"), Int(8000))
	case "volumes":
		y := Seq()
		n := 1 + g.n("vols-n", 3)
		for i := 0; i < n; i++ {
			tgt := "/data/" + g.word("voltgt")
			switch g.n("vol-form", 6) {
			case 0:
				y.Add(Str(tgt))
			case 1:
				// the source of a short bind mount is the classic place for a variable (with a default: one more colon)
				y.Add(Str(g.interp(g.pick("bindsrc", []string{"./src", "../rel", ".", "/abs/src", "~/home"}), c).S + ":" + tgt + g.pick("volmode", []string{"", ":ro", ":rw,z"})))
			case 2:
				if len(c.volumes) > 0 {
					y.Add(Str(g.pick("volname", c.volumes) + ":" + tgt))
				} else {
					y.Add(Str(tgt))
				}
			case 3:
				m := Map().Set("type", Str("bind")).Set("source", Str("./bind-"+g.word("b"))).Set("target", Str(tgt))
				if g.chance("bind-opt", 1, 2) {
					m.Set("bind", Map().Set("create_host_path", Bool(g.chance("chp", 1, 2))))
				}
				if g.chance("vol-ro", 1, 3) {
					m.Set("read_only", Bool(true))
				}
				y.Add(m)
			case 4:
				y.Add(Map().Set("type", Str("tmpfs")).Set("target", Str(tgt)).Set("tmpfs", Map().Set("size", Int(1000+g.n("tsz", 9)))))
			default:
				if len(c.volumes) > 0 {
					m := Map().Set("type", Str("volume")).Set("source", Str(g.pick("volname", c.volumes))).Set("target", Str(tgt))
					if g.chance("vol-nocopy", 1, 2) {
						m.Set("volume", Map().Set("nocopy", Bool(true)))
					}
					y.Add(m)
				} else {
					y.Add(Str(tgt))
				}
			}
		}
		return y
	case "networks":
		if len(c.networks) == 0 {
			return nil
		}
		if g.chance("net-list", 1, 2) {
			y := Seq()
			for _, n := range c.networks {
				if g.chance("net-use", 2, 3) {
					y.Add(Str(n))
				}
			}
			if len(y.Vals) == 0 {
				y.Add(Str(c.networks[0]))
			}
			return y
		}
		y := Map()
		for i, n := range c.networks {
			if i > 0 && !g.chance("net-use", 2, 3) {
				continue
			}
			switch g.n("net-cfg", 3) {
			case 0:
				y.Set(n, Null())
			case 1:
				y.Set(n, Map().Set("aliases", StrSeq("al-"+g.word("alias"), "al2")))
			default:
				y.Set(n, Map().Set("priority", Int(g.n("prio", 3))).Set("ipv4_address", Str(fmt.Sprintf("172.16.%d.10", i))))
			}
		}
		return y
	case "depends_on":
		if len(c.others) == 0 {
			return nil
		}
		if g.chance("dep-list", 1, 2) {
			y := Seq()
			for _, o := range c.others {
				if g.chance("dep-use", 1, 2) {
					y.Add(Str(o))
				}
			}
			if len(y.Vals) == 0 {
				y.Add(Str(c.others[0]))
			}
			return y
		}
		y := Map()
		for i, o := range c.others {
			if i > 0 && !g.chance("dep-use", 1, 2) {
				continue
			}
			m := Map().Set("condition", Str(g.pick("depcond", []string{"service_started", "service_healthy", "service_completed_successfully"})))
			if g.chance("dep-req", 1, 3) {
				m.Set("required", Bool(g.chance("dep-reqv", 1, 2)))
			}
			if g.chance("dep-restart", 1, 3) {
				m.Set("restart", Bool(true))
			}
			y.Set(o, m)
		}
		return y
	case "deploy":
		d := Map()
		if g.chance("dp-rep", 1, 2) {
			d.Set("replicas", g.num(1+g.n("rep", 3), c))
		}
		if g.chance("dp-lbl", 1, 2) {
			d.Set("labels", g.kvMapOrList("dlabels", c, labelKeys))
		}
		if g.chance("dp-res", 1, 2) {
			r := Map().Set("limits", Map().Set("cpus", Str("0.5")).Set("memory", Str("50M")))
			if g.chance("dp-resv", 1, 2) {
				r.Set("reservations", Map().Set("memory", Str("20M")).Set("devices", Seq(Map().Set("capabilities", StrSeq("gpu")).Set("count", Int(1)))))
			}
			d.Set("resources", r)
		}
		if g.chance("dp-place", 1, 3) {
			d.Set("placement", Map().Set("constraints", StrSeq("node.role==manager")).Set("preferences", Seq(Map().Set("spread", Str("node.labels.az")))))
		}
		if g.chance("dp-upd", 1, 3) {
			d.Set("update_config", Map().Set("parallelism", Int(2)).Set("delay", Str("10s")).Set("order", Str("start-first")))
		}
		if g.chance("dp-restart", 1, 3) {
			d.Set("restart_policy", Map().Set("condition", Str("on-failure")).Set("max_attempts", Int(3)).Set("window", Str("120s")))
		}
		return d
	case "healthcheck":
		h := Map()
		if g.chance("hc-list", 1, 2) {
			h.Set("test", StrSeq("CMD", "curl", "-f", "http://localhost"))
		} else {
			h.Set("test", Str("curl -f http://localhost"))
		}
		h.Set("interval", Str(g.pick("hc-int", []string{"10s", "1m30s", "500ms"})))
		if g.chance("hc-ret", 1, 2) {
			h.Set("retries", g.num(1+g.n("retries", 5), c))
		}
		if g.chance("hc-sp", 1, 2) {
			h.Set("start_period", Str("15s"))
		}
		return h
	case "logging":
		l := Map().Set("driver", Str(g.pick("logdrv", []string{"json-file", "syslog"})))
		if g.chance("log-opts", 1, 2) {
			l.Set("options", Map().Set("max-size", Str("10m")).Set("tag", g.interp("t", c)))
		}
		return l
	case "ulimits":
		u := Map()
		if g.chance("ul-a", 1, 2) {
			u.Set("nproc", g.num(65535, c))
		}
		if g.chance("ul-short", 1, 3) {
			u.Set("nofile", g.num(20000, c))
		} else {
			u.Set("nofile", Map().Set("soft", g.num(20000, c)).Set("hard", g.num(40000, c)))
		}
		return u
	case "sysctls":
		if g.chance("sys-list", 1, 2) {
			return StrSeq("net.core.somaxconn=1024", "net.ipv4.tcp_syncookies=0")
		}
		return Map().Set("net.core.somaxconn", Int(1024)).Set("net.ipv4.ip_forward", Str("1"))
	case "extra_hosts":
		if g.chance("eh-large", 1, 8) {
			y := Map()
			n := 13 + g.n("eh-large-n", 8)
			for i := 0; i < n; i++ {
				h := fmt.Sprintf("host%02d", (i*7)%n)
				if i%4 == 0 {
					y.Set(h, StrSeq(fmt.Sprintf("10.1.%d.2", i), fmt.Sprintf("10.1.%d.1", i), fmt.Sprintf("fd00::%d", i)))
				} else {
					y.Set(h, Str(fmt.Sprintf("10.0.0.%d", i)))
				}
			}
			return y
		}
		if g.chance("eh-list", 1, 2) {
			// a drawn non-empty subset: two files then overlap partially, which is where merging has to think
			pool := []string{"somehost:162.242.195.82", "otherhost=50.31.209.229", "v6host:::1", "fourth=10.0.0.4"}
			y := Seq()
			for _, e := range pool {
				if g.chance("eh-pick", 1, 2) {
					y.Add(Str(e))
				}
			}
			if len(y.Vals) == 0 {
				y.Add(Str(pool[g.n("eh-one", len(pool))]))
			}
			return y
		}
		return Map().Set("somehost", Str("162.242.195.82")).Set("multi", StrSeq("10.0.0.1", "10.0.0.2"))
	case "dns", "dns_search", "tmpfs":
		if g.chance(a+"-str", 1, 2) {
			return Str(map[string]string{"dns": "8.8.8.8", "dns_search": "example.com", "tmpfs": "/run"}[a])
		}
		return map[string]*Y{"dns": StrSeq("8.8.8.8", "9.9.9.9"), "dns_search": StrSeq("a.example.com", "b.example.com"), "tmpfs": StrSeq("/run", "/tmp")}[a]
	case "cap_add", "cap_drop", "security_opt", "device_cgroup_rules", "external_links", "group_add":
		vals := map[string][]string{"cap_add": {"NET_ADMIN", "SYS_ADMIN", "ALL"}, "cap_drop": {"MKNOD", "CHOWN"}, "security_opt": {"label=level:s0", "no-new-privileges"},
			"device_cgroup_rules": {"c 1:3 mr", "a 7:* rmw"}, "external_links": {"redis_1", "db_1:mysql"}, "group_add": {"mail", "wheel"}}[a]
		y := Seq()
		n := 1 + g.n(a+"-n", len(vals))
		off := g.n(a+"-o", len(vals))
		for i := 0; i < n; i++ {
			y.Add(Str(vals[(i+off)%len(vals)]))
		}
		return y
	case "secrets", "configs":
		pool := c.secrets
		if a == "configs" {
			pool = c.configs
		}
		if len(pool) == 0 {
			return nil
		}
		y := Seq()
		for _, s := range pool {
			if !g.chance(a+"-use", 2, 3) {
				continue
			}
			if g.chance(a+"-short", 1, 2) {
				y.Add(Str(s))
			} else {
				m := Map().Set("source", Str(s)).Set("target", Str("/run/"+s))
				if g.chance(a+"-mode", 1, 2) {
					m.Set("mode", Raw("0440")).Set("uid", Str("103"))
				}
				y.Add(m)
			}
		}
		if len(y.Vals) == 0 {
			y.Add(Str(pool[0]))
		}
		return y
	case "profiles":
		return StrSeq(g.pick("prof", []string{"dev", "debug", "tools"}))
	case "devices":
		if g.chance("dev-long", 1, 2) {
			return Seq(Map().Set("source", Str("/dev/ttyUSB0")).Set("target", Str("/dev/ttyUSB1")).Set("permissions", Str("rwm")))
		}
		return StrSeq("/dev/ttyUSB0:/dev/ttyUSB0", "/dev/sda:/dev/xvda:rwm")
	case "develop":
		return Map().Set("watch", Seq(Map().Set("path", Str("./web")).Set("action", Str("sync")).Set("target", Str("/app")).Set("ignore", StrSeq("node_modules/")),
			Map().Set("path", Str("./go.mod")).Set("action", Str("rebuild"))))
	case "blkio_config":
		return Map().Set("weight", Int(300)).Set("device_read_bps", Seq(Map().Set("path", Str("/dev/sda")).Set("rate", Str("12mb"))))
	case "storage_opt":
		return Map().Set("size", Str("20G"))
	case "x-ext":
		return Map().Set("k", Str("v")).Set("list", StrSeq("a", "b")).Set("nested", Map().Set("deep", Int(1)))
	case "links":
		if len(c.others) == 0 {
			return nil
		}
		return StrSeq(c.others[0], c.others[0]+":alias")
	case "volumes_from":
		if len(c.others) == 0 {
			return nil
		}
		return StrSeq(c.others[len(c.others)-1]+":ro", "container:ext_c")
	case "network_mode":
		if len(c.others) > 0 && g.chance("nm-svc", 1, 2) {
			return Str("service:" + c.others[0])
		}
		return Str(g.pick("nm", []string{"host", "none", "bridge"}))
	case "pid", "ipc":
		if len(c.others) > 0 && g.chance(a+"-svc", 1, 3) {
			return Str("service:" + c.others[0])
		}
		return Str("host")
	case "post_start", "pre_stop":
		return Seq(Map().Set("command", StrSeq("echo", "hook")).Set("user", Str("root")))
	case "gpus":
		return Seq(Map().Set("driver", Str("nvidia")).Set("count", Int(1)))
	}
	// plain scalars
	switch a {
	case "container_name":
		return Str("cn-" + c.name + "-" + g.word("cn"))
	case "hostname", "domainname", "user", "working_dir", "stop_signal", "restart", "platform", "runtime", "isolation", "cgroup_parent", "mac_address", "pull_policy":
		v := map[string][]string{"hostname": {"h1", "h2"}, "domainname": {"d.example.com"}, "user": {"root", "1000:1000"}, "working_dir": {"/code", "/srv"},
			"stop_signal": {"SIGUSR1", "SIGTERM"}, "restart": {"always", "on-failure:3", "no"}, "platform": {"linux/amd64"}, "runtime": {"runc"},
			"isolation": {"default"}, "cgroup_parent": {"m-executor"}, "mac_address": {"02:42:ac:11:65:43"}, "pull_policy": {"always", "if_not_present", "missing", "never", "build"}}[a]
		if a == "hostname" || a == "domainname" || a == "user" || a == "working_dir" || a == "cgroup_parent" {
			return g.interp(g.pick(a, v), c)
		}
		return Str(g.pick(a, v))
	case "privileged", "read_only", "tty", "stdin_open", "init", "oom_kill_disable", "attach":
		if g.on("interpolation") && len(c.vars) > 0 && g.chance("bool-interp", 1, 5) {
			return Str("${" + "BOOLV" + ":-true}")
		}
		if g.chance("legacy-bool", 1, 4) {
			// YAML 1.1 spellings, still accepted (with a warning) by the loader's boolean cast
			return Raw(g.pick("legacy-bool-v", []string{"yes", "no", "on", "off", "y", "n"}))
		}
		return Bool(g.chance(a+"-v", 1, 2))
	case "stop_grace_period":
		return Str(g.pick("sgp", []string{"20s", "1m", "1h30m"}))
	case "mem_limit", "mem_reservation", "shm_size", "memswap_limit":
		if g.chance(a+"-int", 1, 3) {
			return Int(1048576 * (1 + g.n("mem", 4)))
		}
		return Str(g.pick("mem", []string{"50M", "1g", "512kb"}))
	case "cpus":
		return Raw(g.pick("cpus", []string{"0.5", "2", "1.25"}))
	case "cpu_shares", "cpu_count", "pids_limit", "scale", "oom_score_adj", "mem_swappiness":
		return g.num(1+g.n(a, 8), c)
	}
	return nil
}

// focusPool: every attribute once, those that reach files, other services or top-level resources several times
var focusPool = func() []string {
	p := append([]string(nil), svcAttrs...)
	for a, w := range map[string]int{"env_file": 6, "label_file": 3, "depends_on": 4, "volumes": 3, "build": 3, "secrets": 2, "configs": 2, "networks": 2, "ports": 2, "environment": 3, "labels": 2, "extra_hosts": 2, "ulimits": 2, "healthcheck": 2, "deploy": 2} {
		for i := 1; i < w; i++ {
			p = append(p, a)
		}
	}
	sort.Strings(p)
	return p
}()

var uniqueLists = map[string]bool{"group_add": true, "device_cgroup_rules": true, "security_opt": true, "external_links": true, "volumes_from": true, "links": true}

var svcAttrs = []string{"command", "entrypoint", "environment", "labels", "annotations", "env_file", "label_file", "ports", "expose", "volumes",
	"networks", "depends_on", "deploy", "healthcheck", "logging", "ulimits", "sysctls", "extra_hosts", "dns", "dns_search", "tmpfs", "cap_add",
	"cap_drop", "security_opt", "device_cgroup_rules", "external_links", "group_add", "secrets", "configs", "profiles", "devices", "develop",
	"blkio_config", "storage_opt", "x-ext", "links", "volumes_from", "pid", "ipc", "post_start", "pre_stop", "container_name", "hostname",
	"domainname", "user", "working_dir", "stop_signal", "restart", "platform", "runtime", "cgroup_parent", "mac_address", "pull_policy",
	"privileged", "read_only", "tty", "stdin_open", "init", "stop_grace_period", "mem_limit", "mem_reservation", "shm_size", "cpus",
	"cpu_shares", "pids_limit", "scale", "oom_score_adj", "gpus"}

func relTo(dir, p string) string {
	if strings.HasPrefix(p, dir+"/") {
		return "./" + strings.TrimPrefix(p, dir+"/")
	}
	return p
}

// service builds a service definition with a drawn subset of attributes.
func (g *G) service(c *svcCtx, density int, needImage bool) *Y {
	s := Map()
	if needImage {
		if g.on("build") && g.chance("svc-build", 1, 3) {
			s.Set("build", g.attr("build", c))
			if g.chance("svc-build+image", 1, 3) {
				s.Set("image", g.attr("image", c))
			}
		} else {
			s.Set("image", g.attr("image", c))
		}
	}
	for _, a := range svcAttrs {
		if !g.chance("attr:"+a, density, 100) && a != g.focus {
			continue
		}
		if a == "x-ext" {
			s.Set("x-"+g.word("xk"), g.attr(a, c))
			continue
		}
		if v := g.attr(a, c); v != nil {
			s.Set(a, v)
		}
	}
	// exclusions demanded by the consistency rules
	if s.Get("network_mode") != nil {
		s.Del("networks")
	}
	if s.Get("container_name") != nil {
		s.Del("scale")
		if d := s.Get("deploy"); d != nil {
			d.Del("replicas")
		}
	}
	if s.Get("scale") != nil {
		if d := s.Get("deploy"); d != nil {
			d.Del("replicas")
		}
	}
	if s.Get("cpus") != nil || s.Get("mem_limit") != nil || s.Get("mem_reservation") != nil || s.Get("pids_limit") != nil {
		if d := s.Get("deploy"); d != nil {
			d.Del("resources")
		}
	}
	return s
}

func (g *G) envFileContent(label string, vars []string) string {
	var b strings.Builder
	n := 1 + g.n(label+"-lines", 4)
	for i := 0; i < n; i++ {
		k := g.pick(label+"-k", envKeys)
		switch g.n(label+"-form", 10) {
		case 0:
			fmt.Fprintf(&b, "%s=%s\n", k, g.word(label+"-v"))
		case 1:
			fmt.Fprintf(&b, "export %s=\"%s value\\twith\\\\escapes\"\n", k, g.word(label+"-v"))
		case 2:
			fmt.Fprintf(&b, "%s='single $NOEXPAND'\n", k)
		case 3:
			fmt.Fprintf(&b, "# comment\n%s: yaml-style\n", k)
		case 4:
			fmt.Fprintf(&b, "%s=\"multi\nline\"\n", k)
		case 7:
			fmt.Fprintf(&b, "%s=\"ref-${%s:-unset}\"\n", k, g.pick(label+"-ref", envKeys))
		case 8:
			fmt.Fprintf(&b, "%s=\"esc \\\" quote \\\\ back \\n nl\"\n", k)
		case 9:
			fmt.Fprintf(&b, "%s='single quoted' # comment\n%s=\"ends with an escaped backslash \\\\\"\n", k, g.pick(label+"-k2", envKeys))
		case 5:
			if len(vars) > 0 && g.chance(label+"-ref-project-var", 1, 2) {
				fmt.Fprintf(&b, "%s=pre-${%s}-post # inline\n", k, vars[0])
			} else {
				// a reference to a key that other env files (or earlier lines) may define
				fmt.Fprintf(&b, "%s=\"ref-${%s:-unset}\"\n", k, g.pick(label+"-ref", envKeys))
			}
		default:
			fmt.Fprintf(&b, "%s=\n\n", k)
		}
	}
	return b.String()
}

// topResources generates top-level networks/volumes/secrets/configs.
func (g *G) topResources(doc *Y, c *svcCtx, tag string, dir string) {
	if g.on("networks") {
		n := g.n("nnet", 3)
		nets := Map()
		for i := 0; i < n; i++ {
			name := fmt.Sprintf("net_%s%d", tag, i)
			c.networks = append(c.networks, name)
			switch g.n("net-kind", 5) {
			case 0:
				nets.Set(name, Null())
			case 1:
				v := Map().Set("external", Bool(true)).Set("name", Str("ext-"+name))
				if g.chance("ext-x", 1, 2) {
					v.Set("x-note", Str("ext"))
				}
				if g.on("conflicts") && g.chance("ext-conflict", 1, 2) {
					v.Set("driver", Str("bridge"))
				}
				nets.Set(name, v)
			case 2:
				nets.Set(name, Map().Set("driver", Str("overlay")).Set("driver_opts", Map().Set("foo", Str("bar")).Set("baz", Int(1))).Set("labels", g.kvMapOrList("netlbl", c, labelKeys)))
			case 3:
				nets.Set(name, Map().Set("ipam", Map().Set("driver", Str("default")).Set("config", Seq(
					Map().Set("subnet", Str(fmt.Sprintf("172.%d.0.0/16", 28+i))).Set("gateway", Str(fmt.Sprintf("172.%d.5.254", 28+i))).Set("aux_addresses", Map().Set("h1", Str(fmt.Sprintf("172.%d.1.5", 28+i))).Set("h2", Str(fmt.Sprintf("172.%d.1.6", 28+i)))),
					Map().Set("subnet", Str("2001:3984:3989::/64"))))).Set("enable_ipv6", Bool(true)))
			default:
				nets.Set(name, Map().Set("name", g.interp("named-"+name, c)).Set("attachable", Bool(true)).Set("internal", Bool(false)).Set("x-net", Str("ext")))
			}
		}
		if n > 0 {
			doc.Set("networks", nets)
		}
	}
	if g.on("volumes") {
		n := g.n("nvol", 3)
		vols := Map()
		for i := 0; i < n; i++ {
			name := fmt.Sprintf("vol_%s%d", tag, i)
			c.volumes = append(c.volumes, name)
			switch g.n("vol-kind", 4) {
			case 0:
				vols.Set(name, Null())
			case 1:
				v := Map().Set("external", Bool(true))
				if g.chance("ext-legacy", 1, 4) {
					// deprecated spelling: the name travels inside external
					v = Map().Set("external", Map().Set("name", Str("legacy-ext-"+name)))
				}
				if g.chance("ext-x", 1, 2) {
					v.Set("x-note", Str("ext"))
					v.Set("x-other", Int(1))
				}
				if g.on("conflicts") && g.chance("ext-conflict", 1, 2) {
					v.Set("driver", Str("local")) // external + creation parameter: must be refused, whatever the key order
				}
				vols.Set(name, v)
			case 2:
				vols.Set(name, Map().Set("driver", Str("local")).Set("driver_opts", Map().Set("type", Str("none")).Set("o", Str("bind")).Set("device", Str("./voldata"))))
			default:
				vols.Set(name, Map().Set("name", Str("named-"+name)).Set("labels", g.kvMapOrList("vollbl", c, labelKeys)))
			}
		}
		if n > 0 {
			doc.Set("volumes", vols)
		}
	}
	for _, kind := range []string{"secrets", "configs"} {
		if !g.on(kind) {
			continue
		}
		n := g.n("n"+kind, 3)
		m := Map()
		for i := 0; i < n; i++ {
			name := fmt.Sprintf("%s_%s%d", kind[:3], tag, i)
			if kind == "secrets" {
				c.secrets = append(c.secrets, name)
			} else {
				c.configs = append(c.configs, name)
			}
			switch g.n(kind+"-kind", 4) {
			case 0:
				m.Set(name, Map().Set("file", Str("./"+name+".txt")))
			case 1:
				if kind == "configs" && tag != "m" {
					m.Set(name, Map().Set("file", Str("./"+name+".txt")))
				} else {
					m.Set(name, Map().Set("environment", Str("SECRET_ENV")))
				}
			case 2:
				m.Set(name, Map().Set("external", Bool(true)).Set("name", Str("ext_"+name)))
			default:
				if kind == "configs" {
					m.Set(name, Map().Set("content", Str("inline ${FOO:-content}")))
				} else {
					m.Set(name, Map().Set("file", Str("/abs/"+name)).Set("labels", Map().Set("l", Str("v"))))
				}
			}
		}
		if n > 0 {
			doc.Set(kind, m)
		}
	}
}

// GenLayout generates a valid-by-construction multi-file project layout.
func GenLayout(r *zsimrt.Run) *Layout { return GenLayoutForced(r, nil) }

// genDirTag is appended to directory names; the C02 canaries use their own so that loading them first
// does not warm (and thereby immunise) process-level state keyed by directory for the scenarios proper.
var genDirTag = ""

// GenLayoutForced is GenLayout with some swarm features forced on or off.
func GenLayoutForced(r *zsimrt.Run, forced map[string]bool) *Layout {
	L := &Layout{Files: map[string]string{}, Env: map[string]string{}, Home: "/home/user", Entry: "loader"}
	g := &G{R: r, feat: map[string]bool{}, L: L}
	for k, v := range forced {
		g.feat[k] = v
		if v {
			L.Features = append(L.Features, k)
		}
	}
	root := g.pick("root", []string{"/proj", "/work/My.Project", "/srv/app_1"}) + genDirTag
	L.WorkingDir = root
	L.Cwd = root
	if g.chance("cwd-elsewhere", 1, 4) {
		L.Cwd = "/"
	}
	L.Dirs = append(L.Dirs, root, L.Home)
	vars := []string{}
	if g.on("interpolation") {
		for _, v := range []string{"TAG", "REG", "BOOLV"} {
			if g.chance("var:"+v, 2, 3) {
				vars = append(vars, v)
				if v == "BOOLV" {
					L.Env[v] = g.pick("boolv", []string{"true", "false", "yes"})
				} else {
					L.Env[v] = g.word("varval")
				}
			}
		}
	}
	L.Env["SECRET_ENV"] = "s3cr3t-canary"
	for _, k := range envKeys {
		if g.chance("projenv:"+k, 1, 2) {
			L.Env[k] = "from-project-env-" + strings.ToLower(k)
		}
	}
	c := &svcCtx{dir: root, vars: vars}
	// env / label files
	if g.on("env_file") {
		n := 1 + g.n("nenvf", 3)
		for i := 0; i < n; i++ {
			p := fmt.Sprintf("%s/env/e%d_%s.env", root, i, g.word("envf"))
			L.Files[p] = g.envFileContent("envf", vars)
			c.envFiles = append(c.envFiles, p)
		}
	}
	if g.on("label_file") {
		p := root + "/labels/l0.label"
		L.Files[p] = "com.example.from_file=" + g.word("lf") + "\ntier=file\n"
		c.lblFiles = append(c.lblFiles, p)
	}
	density := []int{4, 10, 25}[g.n("density", 3)]
	stress := forced["stress"]
	if stress {
		density = 4
	}
	forcedFocus := ""
	for k, v := range forced {
		if v && strings.HasPrefix(k, "focus:") {
			forcedFocus = strings.TrimPrefix(k, "focus:")
		}
	}
	if forcedFocus != "" {
		g.focus = forcedFocus
		L.Features = append(L.Features, "focus:"+g.focus)
	} else if stress || g.chance("has-focus", 2, 3) {
		for {
			g.focus = focusPool[g.n("focus", len(focusPool))]
			if !uniqueLists[g.focus] && g.focus != "x-ext" && g.focus != "network_mode" && g.focus != "scale" && g.focus != "container_name" {
				break
			}
		}
		L.Features = append(L.Features, "focus:"+g.focus)
	}
	doc := Map()
	if g.on("version") {
		doc.Set("version", Str(g.pick("version", []string{"3.8", "2.4", "3"})))
	}
	if g.on("name") {
		if g.chance("name-from-project-name", 1, 5) {
			// the name built from the variable the loader itself sets once the name is known
			doc.Set("name", Str("${COMPOSE_PROJECT_NAME:-proj-"+g.word("pname")+"}x"))
		} else {
			doc.Set("name", g.interp("proj-"+g.word("pname"), c))
		}
	}
	g.topResources(doc, c, "m", root)
	// anchors
	if g.on("anchors") {
		common := Map().Set("labels", Map().Set("common", Str("yes"))).Set("restart", Str("always"))
		common.Anchor = "common"
		doc.Set("x-common", common)
	}
	nsvc := 1 + g.n("nsvc", 5)
	if stress {
		nsvc = 3 + g.n("nsvc-stress", 3)
	}
	svcs := Map()
	var names []string
	for i := 0; i < nsvc; i++ {
		name := fmt.Sprintf("svc_%c", 'a'+i)
		cc := *c
		cc.name = name
		cc.others = append([]string(nil), names...)
		s := g.service(&cc, density, true)
		if g.on("anchors") && g.chance("use-anchor", 1, 3) {
			s.Set("<<", Alias("common"))
		}
		svcs.Set(name, s)
		names = append(names, name)
	}
	doc.Set("services", svcs)
	for _, k := range []string{"secrets", "configs"} {
		if m := doc.Get(k); m != nil {
			for i, n := range m.Keys {
				if f := m.Vals[i].Get("file"); f != nil && strings.HasPrefix(f.S, "./") {
					L.Files[root+"/"+strings.TrimPrefix(f.S, "./")] = "content of " + n + "\n"
				}
			}
		}
	}

	// extends
	if g.on("extends") {
		g.addExtends(doc, svcs, c, root, density)
	}
	// include
	if g.on("include") {
		g.addIncludes(doc, c, root, density, 1, names)
	}
	if g.on("x-top") {
		doc.Set("x-top", Map().Set("a", Int(1)).Set("b", StrSeq("x", "y")))
	}

	mainPath := root + "/" + g.pick("mainname", []string{"compose.yaml", "docker-compose.yml"})
	// multi-document split or override files
	docs := []*Y{doc}
	if g.on("override") {
		nov := 1 + g.n("nov", 2)
		if stress {
			nov = 2 + g.n("nov-stress", 2)
		}
		for k := 0; k < nov; k++ {
			ov := Map()
			osv := Map()
			for i, n := range names {
				if !stress && !g.chance("ov-svc", 1, 2) {
					continue
				}
				cc := *c
				cc.name = n
				cc.others = append([]string(nil), names[:i]...)
				o := g.service(&cc, density, false)
				base := svcs.Get(n)
				// an override is most interesting where it meets something: re-generate (with new draws, so
				// usually in another spelling and with other values) a third of the attributes the service has
				for _, k := range base.Keys {
					if k == "image" || k == "build" || k == "<<" || k == "extends" || strings.HasPrefix(k, "x-") || o.Get(k) != nil {
						continue
					}
					if uniqueLists[k] {
						continue // appended lists with a "unique items" schema rule: a second draw mostly just collides
					}
					if g.chance("ov-same-attr", 1, 3) || k == g.focus {
						if v := g.attr(k, &cc); v != nil {
							o.Set(k, v)
						}
					}
				}
				// keep exclusions coherent with the base
				if base.Get("network_mode") != nil {
					o.Del("networks")
				}
				if base.Get("networks") != nil {
					o.Del("network_mode")
				}
				for _, ex := range [][2]string{{"container_name", "scale"}, {"scale", "container_name"}} {
					if base.Get(ex[0]) != nil {
						o.Del(ex[1])
					}
				}
				if base.Get("container_name") != nil || base.Get("scale") != nil || o.Get("container_name") != nil || o.Get("scale") != nil {
					if d := o.Get("deploy"); d != nil {
						d.Del("replicas")
					}
					if d := base.Get("deploy"); d != nil && (o.Get("container_name") != nil || o.Get("scale") != nil) {
						d.Del("replicas")
					}
				}
				for _, lim := range []string{"cpus", "mem_limit", "mem_reservation", "pids_limit"} {
					if base.Get(lim) != nil || o.Get(lim) != nil {
						if d := o.Get("deploy"); d != nil {
							d.Del("resources")
						}
						if d := base.Get("deploy"); d != nil {
							d.Del("resources")
						}
					}
				}
				if g.on("reset") && len(base.Keys) > 1 && g.chance("reset", 1, 3) {
					k := base.Keys[g.n("reset-key", len(base.Keys))]
					if k != "image" && k != "build" && k != "<<" && k != "extends" {
						o.Set(k, &Y{S: "null", Raw: true, Tag: "!reset"})
					}
				}
				if g.on("reset") && base.Get("command") != nil && g.chance("override-tag", 1, 3) {
					o.Set("command", &Y{Kind: 2, Vals: []*Y{Str("overridden")}, Tag: "!override"})
				}
				if len(o.Keys) > 0 {
					osv.Set(n, o)
				}
			}
			if len(osv.Keys) > 0 {
				ov.Set("services", osv)
			}
			if len(ov.Keys) > 0 {
				docs = append(docs, ov)
			}
		}
	}
	var perm func(int) []int
	if g.on("keyorder") {
		perm = func(n int) []int {
			o := make([]int, n)
			for i := range o {
				o[i] = i
			}
			for i := 0; i < n-1; i++ {
				j := i + g.n("keyperm", n-i)
				o[i], o[j] = o[j], o[i]
			}
			return o
		}
	}
	if len(docs) > 1 && g.chance("multidoc", 1, 3) {
		var b strings.Builder
		for i, d := range docs {
			if i > 0 {
				b.WriteString("---\n")
			}
			b.WriteString(Emit(d, perm))
		}
		L.Files[mainPath] = b.String()
		L.Main = []string{mainPath}
	} else {
		L.Files[mainPath] = Emit(docs[0], perm)
		L.Main = []string{mainPath}
		for i, d := range docs[1:] {
			p := fmt.Sprintf("%s/override_f%d.yaml", root, i+1)
			L.Files[p] = Emit(d, perm)
			L.Main = append(L.Main, p)
		}
	}
	L.Required = append(L.Required, L.Main...)
	L.Required = append(L.Required, c.lblFiles...)
	// which env files are really referenced is decided by scanning the emitted text
	g.options(L)
	sort.Strings(L.Features)
	return L
}

func (g *G) options(L *Layout) {
	o := &L.Opts
	if g.on("options") {
		o.SkipValidation = g.chance("o-sv", 1, 6)
		o.SkipInterpolation = g.chance("o-si", 1, 4)
		o.SkipNormalization = g.chance("o-sn", 1, 5)
		o.NoResolvePaths = g.chance("o-rp", 1, 4)
		o.ConvertWindowsPaths = g.chance("o-cw", 1, 6)
		o.SkipConsistencyCheck = g.chance("o-sc", 1, 5)
		o.SkipExtends = g.chance("o-se", 1, 8)
		o.SkipInclude = g.chance("o-sinc", 1, 8)
		o.SkipResolveEnvironment = g.chance("o-sre", 1, 5)
		o.SkipDefaultValues = g.chance("o-sdv", 1, 6)
		o.DiscardEnvFiles = g.chance("o-def", 1, 5)
	}
	o.NoStubLoader = g.chance("o-nostub", 1, 4)
	if g.on("profiles-opt") {
		o.Profiles = []string{g.pick("o-prof", []string{"dev", "debug", "*"})}
		if g.chance("o-prof-many", 1, 3) {
			o.Profiles = []string{"tools", "dev", "debug", "extra"}[:2+g.n("o-prof-n", 3)]
		}
	}
	if g.chance("o-name", 1, 4) {
		o.ProjectName = "explicit-" + g.word("pn")
		o.NameImperative = true
	} else {
		o.ProjectName = "defaultproj"
	}
}

// addExtends rewires some services to extend bases in the same file or in
// files of other directories (chains of 1..3).
// attributes with more than one syntax or with merge rules of their own
var refinable = map[string]bool{"depends_on": true, "environment": true, "labels": true, "ports": true, "volumes": true, "command": true, "entrypoint": true,
	"healthcheck": true, "ulimits": true, "extra_hosts": true, "dns": true, "dns_search": true, "tmpfs": true, "sysctls": true, "logging": true,
	"annotations": true, "env_file": true, "label_file": true, "expose": true, "cap_add": true, "cap_drop": true, "devices": true, "security_opt": true}

func (g *G) addExtends(doc, svcs *Y, c *svcCtx, root string, density int) {
	nb := 1 + g.n("nbasefiles", 2)
	type baseRef struct{ file, svc string }
	var bases []baseRef
	for f := 0; f < nb; f++ {
		dir := fmt.Sprintf("%s/base%s%d", root, genDirTag, f)
		p := fmt.Sprintf("%s/base_f%d.yaml", dir, f)
		bdoc := Map()
		bs := Map()
		n := 1 + g.n("nbasesvc", 2)
		var prev string
		for i := 0; i < n; i++ {
			name := fmt.Sprintf("base%d_%c", f, 'a'+i)
			cc := svcCtx{name: name, dir: dir, vars: c.vars}
			s := g.service(&cc, density+5, g.chance("base-img", 2, 3))
			// attributes referencing other services/resources cannot be inherited blindly
			for _, k := range []string{"depends_on", "links", "volumes_from", "network_mode", "pid", "ipc", "networks", "secrets", "configs", "env_file", "label_file"} {
				s.Del(k)
			}
			if g.chance("base-relpath", 1, 2) {
				s.Set("volumes", Seq(Str("./basedata:/data/base")))
			}
			if prev != "" && g.chance("base-chain", 1, 2) {
				s.Set("extends", Map().Set("service", Str(prev)))
			} else if f > 0 && len(bases) > 0 && g.chance("base-xfile", 1, 2) {
				b := bases[g.n("base-x", len(bases))]
				s.Set("extends", Map().Set("file", Str("../"+path.Base(path.Dir(b.file))+"/"+path.Base(b.file))).Set("service", Str(b.svc)))
			}
			bs.Set(name, s)
			prev = name
			bases = append(bases, baseRef{p, name})
		}
		bdoc.Set("services", bs)
		if g.chance("base-res", 1, 3) {
			// a base file is a compose file in its own right: it may declare resources too
			g.topResources(bdoc, &svcCtx{dir: dir, vars: c.vars}, fmt.Sprintf("b%d", f), dir)
		}
		g.L.Files[p] = Emit(bdoc, nil)
		g.L.Required = append(g.L.Required, p)
	}
	// local services extending
	var local []string
	var lastBase *baseRef // siblings: with probability 1/2 the next extending service takes the same base again
	for i, name := range svcs.Keys {
		s := svcs.Vals[i]
		if !g.chance("svc-extends", 1, 2) {
			local = append(local, name)
			continue
		}
		if lastBase != nil && g.chance("ext-sibling", 1, 2) {
			s.Set("extends", Map().Set("file", Str(relTo(root, lastBase.file))).Set("service", Str(lastBase.svc)))
			local = append(local, name)
			continue
		}
		switch g.n("ext-kind", 4) {
		case 0, 1:
			if len(local) > 0 {
				tgt := local[g.n("ext-local", len(local))]
				if g.chance("ext-chain", 1, 2) {
					tgt = local[len(local)-1] // the service just before: chains inside one file
				}
				if g.chance("ext-short", 1, 2) {
					s.Set("extends", Str(tgt))
				} else {
					s.Set("extends", Map().Set("service", Str(tgt)))
				}
				// an extending service is most interesting where it says something about what its base says
				// too: re-draw (in whatever syntax comes up) some of the attributes the base defines
				if ty := svcs.Get(tgt); ty != nil && ty.Kind == 1 {
					cc := *c
					cc.name = name
					cc.others = append([]string(nil), svcs.Keys[:i]...)
					for _, k := range append([]string(nil), ty.Keys...) {
						if !refinable[k] || s.Get(k) != nil {
							continue
						}
						if k == g.focus || g.chance("ext-refine", 1, 4) {
							if v := g.attr(k, &cc); v != nil {
								s.Set(k, v)
							}
						} else if g.on("reset") && g.chance("ext-tag", 1, 6) {
							// what the base says is dropped, or replaced wholesale, by the extending service
							if g.chance("ext-tag-reset", 1, 2) {
								s.Set(k, &Y{S: "null", Raw: true, Tag: "!reset"})
							} else if v := g.attr(k, &cc); v != nil && v.Tag == "" {
								v.Tag = "!override"
								s.Set(k, v)
							}
						}
					}
				}
				break
			}
			fallthrough
		default:
			b := bases[g.n("ext-base", len(bases))]
			lastBase = &b
			s.Set("extends", Map().Set("file", Str(relTo(root, b.file))).Set("service", Str(b.svc)))
		}
		local = append(local, name)
	}
}

// addIncludes adds include entries pointing at generated sub-projects.
func (g *G) addIncludes(doc *Y, c *svcCtx, root string, density, depth int, taken []string) {
	n := 1 + g.n("ninc", 2)
	inc := Seq()
	for i := 0; i < n; i++ {
		tag := fmt.Sprintf("i%d%c%s", depth, 'a'+i, g.id("n"))
		dir := fmt.Sprintf("%s/inc_%s", root, tag)
		p := dir + "/inc_" + tag + ".yaml"
		idoc := Map()
		ic := &svcCtx{dir: dir, vars: c.vars}
		if g.chance("inc-res", 1, 2) {
			g.topResources(idoc, ic, tag, dir)
		}
		isv := Map()
		ns := 1 + g.n("ninc-svc", 2)
		var names []string
		for k := 0; k < ns; k++ {
			name := fmt.Sprintf("inc_%s_%c", tag, 'a'+k)
			cc := *ic
			cc.name = name
			cc.others = append([]string(nil), names...)
			isv.Set(name, g.service(&cc, density, true))
			names = append(names, name)
		}
		idoc.Set("services", isv)
		for _, k := range []string{"secrets", "configs"} {
			if m := idoc.Get(k); m != nil {
				for j, nn := range m.Keys {
					if f := m.Vals[j].Get("file"); f != nil && strings.HasPrefix(f.S, "./") {
						g.L.Files[dir+"/"+strings.TrimPrefix(f.S, "./")] = "content of " + nn + "\n"
					}
				}
			}
		}
		if depth < 3 && g.chance("inc-nested", 1, 3) {
			g.addIncludes(idoc, ic, dir, density, depth+1, nil)
		}
		g.L.Files[p] = Emit(idoc, nil)
		g.L.Required = append(g.L.Required, p)
		if g.chance("inc-dotenv", 1, 3) {
			g.L.Files[dir+"/.env"] = "INC_" + strings.ToUpper(tag) + "=from-dotenv\nFOO=inc-foo\n"
		}
		switch g.n("inc-form", 3) {
		case 0:
			inc.Add(Str(relTo(root, p)))
		case 1:
			inc.Add(Map().Set("path", Str(relTo(root, p))))
		default:
			m := Map().Set("path", StrSeq(relTo(root, p)))
			if g.chance("inc-pd", 1, 2) {
				m.Set("project_directory", Str(relTo(root, dir)))
			}
			if g.chance("inc-envfile", 2, 3) {
				ef := dir + "/inc_" + tag + ".env"
				g.L.Files[ef] = "INCVAR=" + g.word("incv") + "\n"
				if depth >= 2 {
					m.Set("env_file", Str(ef))
				} else {
					m.Set("env_file", Str(relTo(root, ef)))
				}
				g.L.Required = append(g.L.Required, ef)
			}
			inc.Add(m)
		}
	}
	doc.Set("include", inc)
}
