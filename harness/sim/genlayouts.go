package sim

import (
	"encoding/json"
	"fmt"
	"os"
	"path/filepath"

	"github.com/compose-spec/compose-go/v2/zsimrt"
)

// Engine "genlayouts" writes generated layouts as JSON files for the race
// harness (which is built from a pristine tree and cannot link the generator's
// choice source). Run index i always produces the same layout.
func init() {
	engines["genlayouts"] = &engine{prop: "C19", run: func(c *Ctx, r *zsimrt.Run) {
		dir := os.Getenv("VERIF_LAYOUT_DIR")
		forced := map[string]bool{"options": false, "keyorder": false}
		switch c.Index % 4 {
		case 0:
			forced["version"] = true
		case 1:
			forced["extends"] = true
			forced["env_file"] = true
		case 2:
			forced["include"] = true
			forced["interpolation"] = true
		case 3:
			// attribute-stress layouts, the focus rotating over the attributes with the most machinery behind them
			focus := []string{"depends_on", "env_file", "volumes", "ports", "command", "environment", "healthcheck", "build", "labels", "networks", "extra_hosts", "secrets"}
			forced = map[string]bool{"options": false, "keyorder": false, "stress": true, "override": true, "extends": c.Index%8 == 3, "focus:" + focus[(c.Index/4)%len(focus)]: true}
		}
		L := GenLayoutForced(r, forced)
		out := RunLoad(L, Materialise(L), "", false)
		c.Count("layout-"+out.Kind(), 1)
		b, _ := json.Marshal(L)
		_ = os.WriteFile(filepath.Join(dir, fmt.Sprintf("layout-%06d.json", c.Index)), b, 0o644)
	}, replay: func(c *Ctx, v *Violation) {}}
}
