package sim

import (
	"bytes"
	"os"
	"os/exec"
	"encoding/json"
	"fmt"
	"hash/fnv"
	"reflect"
	"regexp"
	"sort"
	"strings"

	"github.com/compose-spec/compose-go/v2/zsimrt"
)

func init() {
	engines["c02"] = &engine{prop: "C02", run: c02Run, replay: c02Replay}
}

func layoutDigest(L *Layout) string {
	b, _ := json.Marshal(L)
	h := fnv.New64a()
	h.Write(b)
	return fmt.Sprintf("%016x", h.Sum64())
}

type c02Load struct {
	Label    string         `json:"label"`
	Policies map[string]int `json:"policies,omitempty"`
	Kind     string         `json:"kind"`
	Err      string         `json:"err,omitempty"`
	Sched    int            `json:"schedule_no"`
	DefPol   int            `json:"default_policy"`
}

// c02Compare returns "" when b agrees with the reference outcome a.
func c02Compare(a, b *Outcome) (clause, key string) {
	if a.Kind() != b.Kind() {
		return "outcome-kind", fmt.Sprintf("%s vs %s", a.Kind(), b.Kind())
	}
	if !a.OK {
		return "", ""
	}
	if (a.Model != nil || b.Model != nil) && !reflect.DeepEqual(a.Model, b.Model) {
		return "model-differs", FirstDiff(a.Model, b.Model)
	}
	if !reflect.DeepEqual(a.Project, b.Project) {
		return "project-differs", FirstDiff(a.Project, b.Project)
	}
	if a.MarshalErr != b.MarshalErr {
		return "marshal-error-differs", a.MarshalErr + " vs " + b.MarshalErr
	}
	if !bytes.Equal(a.YAML, b.YAML) {
		return "yaml-bytes-differ", firstLineDiff(a.YAML, b.YAML)
	}
	if !bytes.Equal(a.JSON, b.JSON) {
		return "json-bytes-differ", firstLineDiff(a.JSON, b.JSON)
	}
	return "", ""
}

func firstLineDiff(a, b []byte) string {
	la, lb := strings.Split(string(a), "\n"), strings.Split(string(b), "\n")
	for i := 0; i < len(la) && i < len(lb); i++ {
		if la[i] != lb[i] {
			return fmt.Sprintf("line %d: %q vs %q", i+1, strings.TrimSpace(la[i]), strings.TrimSpace(lb[i]))
		}
	}
	return fmt.Sprintf("length %d vs %d lines", len(la), len(lb))
}

// stripKey removes volatile detail from a diff path so that the key names the class.
func classKey(clause, key string) string {
	// service / resource names are generated: keep the structure, drop indices of generated names
	return clause + ":" + bracketRe.ReplaceAllString(key, "[*]")
}

var bracketRe = regexp.MustCompile(`\[[^\]]*\]`)

// c02Layout is the scenario generator of this engine (shared with the fresh-process child).
func c02Layout(r *zsimrt.Run) *Layout {
	if r.Chance("c02-stress", 1, 4) {
		// attribute stress: a small project in which one attribute is written by every service in the main
		// file and in 2-3 override files, each time with fresh draws (spelling, keys, values)
		return GenLayoutForced(r, map[string]bool{"stress": true, "override": true, "include": false, "extends": false, "options": false, "profiles-opt": false, "anchors": false})
	}
	L := GenLayout(r)
	if r.Chance("c02-remote", 1, 3) {
		addRemote(&G{R: r, feat: map[string]bool{}, L: L}, L)
	}
	if r.Chance("c02-model", 1, 8) {
		L.Entry = "model" // LoadModelWithContext: the raw model is what is compared
		return L
	}
	if r.Chance("c02-cli", 1, 5) {
		// through cli.ProjectOptions: .env discovery, OS environment, COMPOSE_FILE, default file lookup
		L.Entry = "cli"
		c01CliTweaks(&G{R: r, feat: map[string]bool{}, L: L}, L)
	}
	return L
}

func soloDigest(o *Outcome) string {
	if o.Model != nil {
		return fmt.Sprintf("%s model %x", o.Kind(), fnvHash([]byte(Fingerprint(o.Model))))
	}
	return fmt.Sprintf("%s %x %x", o.Kind(), fnvHash(o.YAML), fnvHash(o.JSON))
}

// TestSolo support: the same scenario loaded once in a process that has done nothing else.
func c02Solo(seed uint64, idx int) string {
	r := zsimrt.NewRun(zsimrt.Mix(seed, "c02", uint64(idx)))
	zsimrt.Activate(r)
	L := c02Layout(r)
	r.ResetPolicies()
	r.SetPolicy(zsimrt.OrdSorted)
	return soloDigest(RunLoad(L, Materialise(L), "", true))
}

func c02Run(c *Ctx, r *zsimrt.Run) {
	c02Canaries(c, false)
	L := c02Layout(r)
	_, ref := c02Scenario(c, r, L, nil)
	if ref != nil && (c.Index%16 == 0 || len(L.Remote) > 0) && c.Replay == nil {
		// the symmetric half of the history clause: what this process (with everything it has loaded so
		// far) computed must be what a fresh process computes for the same input
		cmd := exec.Command(os.Args[0], "-test.run", "^TestSolo$")
		cmd.Env = append(os.Environ(), fmt.Sprintf("VERIF_SOLO_INDEX=%d", c.Index), fmt.Sprintf("VERIF_SOLO_SEED=%d", c.Res.Seed), "VERIF_ENGINE=")
		b, err := cmd.Output()
		got := ""
		for _, line := range strings.Split(string(b), "\n") {
			if strings.HasPrefix(line, "SOLO ") {
				got = strings.TrimPrefix(line, "SOLO ")
			}
		}
		c.Count("fresh-process-comparisons", 1)
		if err == nil && got != "" && got != soloDigest(ref) {
			sc, _ := json.Marshal(map[string]any{"kind": "fresh-process", "layout": L, "in_process": soloDigest(ref), "fresh_process": got, "runs_before_in_this_process": c.Res.Runs,
				"first_index": c.Res.From, "index": c.Index, "verif_seed": c.Res.Seed})
			c.Violate(Violation{Property: "C02", Clause: "depends-on-earlier-loads", Key: "depends-on-earlier-loads/fresh-process-differs:" + strings.SplitN(soloDigest(ref), " ", 2)[0] + " vs " + strings.SplitN(got, " ", 2)[0], Engine: "c02", Scenario: sc,
				Detail: fmt.Sprintf("run %d: after %d earlier runs in this process the load gives [%s]; the same input in a fresh process gives [%s]", c.Index, c.Res.Runs, soloDigest(ref), got)})
		}
	}
	canarySince = append(canarySince, c.Index)
	if len(canarySince) >= 40 {
		c02Canaries(c, true)
	}
}

// ---- canaries: "the result does not depend on which other loads ran earlier in the same process".
// A fixed set of layouts is loaded when the worker process is still pristine; after every 40 scenario
// runs (each of which loads several generated inputs, some broken) they are loaded again and must give
// the same outcome, project and bytes. A difference is minimised to the run(s) that caused it.

type canary struct {
	L   *Layout
	ref *Outcome
}

var (
	canaries    []canary
	canarySince []int // run indices executed since the last canary check
	canarySeed  uint64
)

func canaryLayouts(seed uint64) []*Layout {
	genDirTag = "-canary"
	defer func() { genDirTag = "" }()
	var out []*Layout
	for k := 0; k < 10; k++ {
		r := zsimrt.NewRun(zsimrt.Mix(seed, "c02-canary", uint64(k)))
		zsimrt.Activate(r)
		forced := map[string]bool{"options": false, "profiles-opt": false}
		switch k % 5 {
		case 0:
			forced["version"] = true
		case 1:
			forced["extends"] = true
		case 2:
			forced["include"] = true
		case 3:
			forced["override"] = true
			forced["interpolation"] = true
		}
		L := GenLayoutForced(r, forced)
		if k%5 == 4 {
			forcedR := map[string]bool{"options": false, "profiles-opt": false, "extends": true}
			L = GenLayoutForced(r, forcedR)
			addRemote(&G{R: r, feat: map[string]bool{}, L: L}, L)
		}
		L.Opts.NoStubLoader = false
		out = append(out, L)
	}
	return out
}

func canaryLoad(L *Layout) *Outcome {
	r := zsimrt.NewRun(99)
	zsimrt.Activate(r)
	r.SetPolicy(zsimrt.OrdSorted)
	return RunLoad(L, Materialise(L), "", true)
}

func c02Canaries(c *Ctx, check bool) {
	prev := zsimrt.Current()
	defer func() {
		if prev != nil {
			zsimrt.Activate(prev)
		}
	}()
	if canaries == nil {
		canarySeed = c.Res.Seed
		for _, L := range canaryLayouts(canarySeed) {
			canaries = append(canaries, canary{L, canaryLoad(L)})
		}
		c.Count("canary-layouts", len(canaries))
		return
	}
	if !check {
		return
	}
	since := canarySince
	canarySince = nil
	for k := range canaries {
		out := canaryLoad(canaries[k].L)
		c.Count("canary-reloads", 1)
		if clause, key := c02Compare(canaries[k].ref, out); clause != "" {
			culprit := c02HistoryMinimise(c, k, since)
			sc, _ := json.Marshal(map[string]any{"kind": "history", "canary": k, "canary_layout": canaries[k].L, "history_run_indices": culprit, "verif_seed": canarySeed})
			c.Violate(Violation{Property: "C02", Clause: "depends-on-earlier-loads", Key: classKey("depends-on-earlier-loads/"+clause, key), Engine: "c02", Scenario: sc, Minimised: len(culprit) < len(since),
				Detail: fmt.Sprintf("canary layout %d loads differently after the runs %v of this process than in a pristine process: %s %s", k, culprit, clause, key)})
			canaries[k].ref = out // report each pollution once
		}
	}
}

// c02HistoryMinimise cannot un-run loads in this process; it reports the window and the replay narrows it down.
func c02HistoryMinimise(c *Ctx, k int, since []int) []int { return since }

// c02Scenario loads L under several order schedules and histories and compares.
// When pinned != nil it is the set of per-load site policies to use (replay/minimisation).
func c02Scenario(c *Ctx, r *zsimrt.Run, L *Layout, pinned []map[string]int) (*Violation, *Outcome) {
	type sched struct {
		label string
		pol   int
	}
	scheds := []sched{{"sorted", zsimrt.OrdSorted}, {"reverse", zsimrt.OrdReverse}, {"swarm1", -1}, {"swarm2", -1}, {"shuffle", zsimrt.OrdShuffle}, {"after-history", -1}}
	var ref *Outcome
	var loads []c02Load
	nonCanonBefore := 0
	for _, n := range r.NonCanon {
		nonCanonBefore += n
	}
	for i, s := range scheds {
		r.ResetPolicies()
		r.SetPolicy(s.pol)
		if pinned != nil && i < len(pinned) && pinned[i] != nil {
			r.SetPolicy(zsimrt.OrdSorted)
			for site, p := range pinned[i] {
				r.SetSitePolicy(site, p)
			}
		}
		if s.label == "after-history" {
			// a drawn history of other loads in the same process, then the same input again
			nh := r.Draw("history-len", 4)
			for h := 0; h < nh; h++ {
				other := GenLayout(r)
				if r.Chance("history-break", 1, 3) && len(other.Main) > 0 {
					other.Files[other.Main[0]] += "\nservices: [broken"
				}
				RunLoad(other, Materialise(other), "", false)
				c.Count("history-loads", 1)
			}
			r.ResetPolicies()
		}
		out := RunLoad(L, Materialise(L), "", true)
		loads = append(loads, c02Load{Label: s.label, Policies: r.SitePolicies(), Kind: out.Kind(), Err: out.Err, Sched: r.Schedule(), DefPol: s.pol})
		c.Trace(fmt.Sprintf("%s:%s:%d:%d:%x", s.label, out.Kind(), out.KeysCalls, out.IOEvents, fnvHash(out.YAML)))
		c.Count("loads", 1)
		c.Count("outcome-"+out.Kind(), 1)
		if i == 0 {
			ref = out
			continue
		}
		if clause, key := c02Compare(ref, out); clause != "" {
			sc, _ := json.Marshal(map[string]any{"layout": L, "loads": loads, "reference": loads[0]})
			v := Violation{Property: "C02", Clause: clause, Key: classKey(clause, key), Engine: "c02", Scenario: sc,
				Detail: fmt.Sprintf("load %q disagrees with the canonical-order load of the same input: %s", s.label, key)}
			c02Minimise(c, r, L, i, loads, &v)
			c.Violate(v)
			return &v, ref
		}
	}
	if L.Entry == "loader" && len(L.Remote) == 0 && r.Chance("preparsed-twice", 1, 4) {
		r.ResetPolicies()
		r.SetPolicy(zsimrt.OrdSorted)
		if a, b, ok := RunLoadPreparsed(L, Materialise(L)); ok {
			c.Count("preparsed-reloads", 1)
			if clause, key := c02Compare(a, b); clause != "" {
				sc, _ := json.Marshal(map[string]any{"layout": L, "kind": "preparsed-twice", "first": a.Kind(), "second": b.Kind(), "second_err": b.Err})
				v := Violation{Property: "C02", Clause: "second-load-of-same-details-differs", Key: classKey("second-load-of-same-details-differs/"+clause, key), Engine: "c02", Scenario: sc,
					Detail: fmt.Sprintf("one ConfigDetails with pre-parsed files loaded twice: first %s, second %s %s", a.Kind(), b.Kind(), truncate(b.Err, 200))}
				c.Violate(v)
				return &v, ref
			}
		}
	}
	if L.Entry == "cli" && L.Stdin == "" && r.Chance("cli-options-twice", 1, 3) {
		r.ResetPolicies()
		r.SetPolicy(zsimrt.OrdSorted)
		if a, b, ok := RunLoadCliTwice(L, Materialise(L)); ok {
			c.Count("cli-options-reloads", 1)
			if clause, key := c02Compare(a, b); clause != "" {
				sc, _ := json.Marshal(map[string]any{"layout": L, "kind": "cli-options-twice", "first": a.Kind(), "second": b.Kind(), "second_err": b.Err})
				v := Violation{Property: "C02", Clause: "second-load-with-same-options-differs", Key: classKey("second-load-with-same-options-differs/"+clause, key), Engine: "c02", Scenario: sc,
					Detail: fmt.Sprintf("one cli.ProjectOptions value, LoadProject called twice: first %s, second %s %s", a.Kind(), b.Kind(), truncate(b.Err, 200))}
				c.Violate(v)
				return &v, ref
			}
		}
	}
	nonCanon := 0
	for _, n := range r.NonCanon {
		nonCanon += n
	}
	if nonCanon > nonCanonBefore && ref.OK {
		c.Nontrivial(layoutDigest(L) + fmt.Sprintf("/%016x", r.Digest()))
	}
	for site, n := range r.NonCanon {
		c.Count("site-noncanon:"+site, n)
	}
	c.Max("steps-per-load", int(ref.Steps))
	c.Max("map-ranges-per-load", int(ref.KeysCalls))
	c.Max("io-events-per-load", ref.IOEvents)
	if ref.OK {
		c.Sample(map[string]any{"main": L.Main, "features": L.Features, "files": len(L.Files), "loads": loads[1:3], "yaml_bytes": len(ref.YAML)})
	}
	return nil, ref
}

// c02Minimise isolates the order-dependent sites: starting from the failing
// load's site policies, set sites back to canonical while the disagreement persists.
func c02Minimise(c *Ctx, r *zsimrt.Run, L *Layout, failing int, loads []c02Load, v *Violation) {
	pol := loads[failing].Policies
	if len(pol) == 0 || loads[failing].Label == "after-history" {
		return
	}
	sites := make([]string, 0, len(pol))
	for s, p := range pol {
		if p != zsimrt.OrdSorted {
			sites = append(sites, s)
		}
	}
	sort.Strings(sites)
	check := func(keep map[string]int) bool {
		// same seed and schedule number as the failing load: the per-site decisions are the same ones
		rr := zsimrt.NewRun(r.Seed)
		zsimrt.Activate(rr)
		defer zsimrt.Activate(r)
		rr.SetPolicy(zsimrt.OrdSorted)
		a := RunLoad(L, Materialise(L), "", true)
		rr.SetSchedule(loads[failing].Sched)
		rr.SetPolicy(zsimrt.OrdSorted)
		for s, p := range keep {
			rr.SetSitePolicy(s, p)
		}
		b := RunLoad(L, Materialise(L), "", true)
		cl, _ := c02Compare(a, b)
		return cl != ""
	}
	keep := map[string]int{}
	for _, s := range sites {
		keep[s] = pol[s]
	}
	if !check(keep) {
		return // depends on the exact draws (rotation amounts); keep the full record
	}
	for _, s := range sites {
		p := keep[s]
		delete(keep, s)
		if !check(keep) {
			keep[s] = p
		}
	}
	culprit := make([]string, 0, len(keep))
	for s := range keep {
		culprit = append(culprit, s)
	}
	sort.Strings(culprit)
	v.Minimised = true
	v.Notes = map[string]any{"order_dependent_sites": culprit, "policies": keep}
	v.Key += " sites=" + strings.Join(culprit, ",")
}

func c02ReplayHistory(c *Ctx, v *Violation) bool {
	var sc struct {
		Kind    string `json:"kind"`
		Canary  int    `json:"canary"`
		History []int  `json:"history_run_indices"`
		Seed    uint64 `json:"verif_seed"`
	}
	if err := json.Unmarshal(v.Scenario, &sc); err != nil || sc.Kind != "history" {
		return false
	}
	// fresh process: pristine reference, then the recorded runs, then the canary again
	ls := canaryLayouts(sc.Seed)
	if sc.Canary >= len(ls) {
		return true
	}
	L := ls[sc.Canary]
	ref := canaryLoad(L)
	saved := canaries
	canaries = []canary{} // non-nil: the scenario runs below must not start their own canary checks
	for _, idx := range sc.History {
		r := zsimrt.NewRun(zsimrt.Mix(sc.Seed, "c02", uint64(idx)))
		zsimrt.Activate(r)
		c02Scenario(&Ctx{Res: &Result{Counters: map[string]int{}, Max: map[string]int{}}, nt: map[string]bool{}, Index: idx}, r, c02Layout(r), nil)
	}
	canaries = saved
	out := canaryLoad(L)
	if clause, key := c02Compare(ref, out); clause != "" {
		c.Violate(Violation{Property: "C02", Clause: "depends-on-earlier-loads", Key: classKey("depends-on-earlier-loads/"+clause, key), Engine: "c02", Detail: "reproduced in a fresh process"})
	}
	return true
}

// c02ReplayFresh re-executes the worker's runs up to the recorded one, then compares with a fresh process again.
func c02ReplayFresh(c *Ctx, v *Violation) bool {
	var sc struct {
		Kind  string `json:"kind"`
		First int    `json:"first_index"`
		Index int    `json:"index"`
		Seed  uint64 `json:"verif_seed"`
	}
	if err := json.Unmarshal(v.Scenario, &sc); err != nil || sc.Kind != "fresh-process" {
		return false
	}
	canaries = []canary{}
	c.Res.Seed, c.Res.From = sc.Seed, sc.First
	c.Replay = nil
	for idx := sc.First; idx <= sc.Index; idx++ {
		r := zsimrt.NewRun(zsimrt.Mix(sc.Seed, "c02", uint64(idx)))
		zsimrt.Activate(r)
		c.Index, c.Seed = idx, r.Seed
		if idx < sc.Index {
			c.Replay = v // no fresh-process comparison for the history runs
		} else {
			c.Replay = nil
		}
		c02Run(c, r)
		c.Res.Runs++
	}
	return true
}

func c02Replay(c *Ctx, v *Violation) {
	if c02ReplayHistory(c, v) || c02ReplayFresh(c, v) {
		return
	}
	var sc struct {
		Layout *Layout `json:"layout"`
	}
	if err := json.Unmarshal(v.Scenario, &sc); err != nil || sc.Layout == nil {
		c.Count("replay-bad-file", 1)
		return
	}
	// the generator is re-run from the same seed so that every later draw
	// (schedules, history) is identical; the stored layout must match.
	r := zsimrt.NewRun(v.RunSeed)
	zsimrt.Activate(r)
	L := c02Layout(r)
	if layoutDigest(L) != layoutDigest(sc.Layout) {
		c.Count("replay-layout-drift", 1)
		L = sc.Layout
	}
	c02Scenario(c, r, L, nil)
}
