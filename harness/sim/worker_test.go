package sim

import (
	"encoding/json"
	"fmt"
	"os"
	"runtime/debug"
	"sort"
	"strconv"
	"testing"
	"time"

	"github.com/compose-spec/compose-go/v2/zsimrt"
)

// Violation is what an engine reports; Replay is the self-contained replay file body.
type Violation struct {
	Property string          `json:"property"`
	Clause   string          `json:"clause"`
	Key      string          `json:"key"`
	Detail   string          `json:"detail,omitempty"`
	Engine   string          `json:"engine"`
	RunSeed  uint64          `json:"run_seed"`
	RunIndex int             `json:"run_index"`
	Scenario json.RawMessage `json:"scenario,omitempty"`
	Draws    []zsimrt.Draw   `json:"draws,omitempty"`
	Digest   string          `json:"digest,omitempty"`
	Trace    []string        `json:"trace,omitempty"`
	Minimised bool           `json:"minimised,omitempty"`
	Notes    map[string]any  `json:"notes,omitempty"`
}

// Result is what one worker process writes.
type Result struct {
	Engine     string         `json:"engine"`
	Seed       uint64         `json:"seed"`
	From       int            `json:"from"`
	To         int            `json:"to"`
	Done       int            `json:"done"`
	Runs       int            `json:"runs"`
	Nontrivial []string       `json:"nontrivial"` // distinct digests of non-trivial runs
	Counters   map[string]int `json:"counters"`
	Samples    []any          `json:"samples"`
	Violations []Violation    `json:"violations"`
	WallS      float64        `json:"wall_s"`
	Max        map[string]int `json:"max"`
}

// Ctx is handed to engines for one run.
type Ctx struct {
	Res    *Result
	Index  int
	Seed   uint64
	nt     map[string]bool
	Tier   string
	Replay *Violation // non-nil when replaying
	Worker, Workers int
	Deadline time.Time // wall-clock end of this worker's budget: long evaluations stop early (never used for verdicts)
	Stop   bool // set by an engine whose enumeration is exhausted
	trace  uint64
	traceLog []string
	seenKeys map[string]bool
}

// Trace mixes an event of the current run into its trace digest (determinism self-test).
func (c *Ctx) Trace(s string) {
	h := c.trace
	if h == 0 {
		h = 14695981039346656037
	}
	for i := 0; i < len(s); i++ {
		h ^= uint64(s[i])
		h *= 1099511628211
	}
	c.trace = h
	if traceVerbose {
		c.traceLog = append(c.traceLog, s)
	}
}

var traceVerbose = os.Getenv("VERIF_DIGEST_VERBOSE") != ""

func (c *Ctx) Count(k string, n int) { c.Res.Counters[k] += n }
func (c *Ctx) Max(k string, v int) {
	if v > c.Res.Max[k] {
		c.Res.Max[k] = v
	}
}
func (c *Ctx) Nontrivial(digest string) {
	if len(c.nt) < 400000 {
		c.nt[digest] = true
	}
}
func (c *Ctx) Sample(s any) {
	if len(c.Res.Samples) < 3 {
		c.Res.Samples = append(c.Res.Samples, s)
	}
}
func (c *Ctx) Violate(v Violation) {
	v.RunSeed, v.RunIndex = c.Seed, c.Index
	c.Count("violations", 1)
	// one record per failure class (key): repeated occurrences of a class - a known finding may fire
	// thousands of times - must never crowd out a class seen for the first time
	if c.seenKeys == nil {
		c.seenKeys = map[string]bool{}
	}
	if c.seenKeys[v.Key] {
		c.Count("violations-repeated-key", 1)
		return
	}
	c.seenKeys[v.Key] = true
	if len(c.Res.Violations) < 400 {
		c.Res.Violations = append(c.Res.Violations, v)
	} else {
		c.Count("violations-dropped-over-400-distinct-keys", 1)
	}
}

type engine struct {
	prop   string
	run    func(c *Ctx, r *zsimrt.Run)
	replay func(c *Ctx, v *Violation) // re-executes v; must call c.Violate with the same key if it reproduces
}

var engines = map[string]*engine{}

func envInt(k string, d int) int {
	if s := os.Getenv(k); s != "" {
		if v, err := strconv.Atoi(s); err == nil {
			return v
		}
	}
	return d
}

// TestSolo loads one c02 scenario in an otherwise pristine process and prints its digest.
func TestSolo(t *testing.T) {
	if os.Getenv("VERIF_SOLO_INDEX") == "" {
		t.Skip()
	}
	fmt.Printf("SOLO %s\n", c02Solo(uint64(envInt("VERIF_SOLO_SEED", 1)), envInt("VERIF_SOLO_INDEX", 0)))
}

func TestWorker(t *testing.T) {
	name := os.Getenv("VERIF_ENGINE")
	if name == "" {
		t.Skip("VERIF_ENGINE not set")
	}
	e := engines[name]
	if e == nil {
		fmt.Fprintln(os.Stderr, "unknown engine", name)
		os.Exit(2)
	}
	workerT = t
	debug.SetMaxStack(512 << 20)
	seed := uint64(envInt("VERIF_SEED", 1))
	from, to := envInt("VERIF_FROM", 0), envInt("VERIF_TO", 100)
	budget := time.Duration(envInt("VERIF_BUDGET_S", 3600)) * time.Second
	out := os.Getenv("VERIF_OUT")
	progress := os.Getenv("VERIF_PROGRESS")
	res := &Result{Engine: name, Seed: seed, From: from, To: to, Counters: map[string]int{}, Max: map[string]int{}}
	ctx := &Ctx{Res: res, nt: map[string]bool{}, Tier: os.Getenv("VERIF_TIER"), Worker: envInt("VERIF_WORKER", 0), Workers: envInt("VERIF_WORKERS", 1)}
	start := time.Now()
	ctx.Deadline = start.Add(budget)
	write := func() {
		res.WallS = time.Since(start).Seconds()
		res.Nontrivial = res.Nontrivial[:0]
		for d := range ctx.nt {
			res.Nontrivial = append(res.Nontrivial, d)
		}
		sort.Strings(res.Nontrivial)
		if out != "" {
			b, _ := json.Marshal(res)
			tmp := out + ".tmp"
			_ = os.WriteFile(tmp, b, 0o644)
			_ = os.Rename(tmp, out)
		}
	}
	if rp := os.Getenv("VERIF_REPLAY"); rp != "" {
		b, err := os.ReadFile(rp)
		if err != nil {
			fmt.Fprintln(os.Stderr, err)
			os.Exit(2)
		}
		var v Violation
		if err := json.Unmarshal(b, &v); err != nil {
			fmt.Fprintln(os.Stderr, err)
			os.Exit(2)
		}
		ctx.Replay = &v
		ctx.Seed, ctx.Index = v.RunSeed, v.RunIndex
		e.replay(ctx, &v)
		zsimrt.Deactivate()
		res.Runs = 1
		write()
		return
	}
	var pf, dl *os.File
	if progress != "" {
		pf, _ = os.Create(progress)
	}
	if p := os.Getenv("VERIF_DIGEST_LOG"); p != "" {
		dl, _ = os.Create(p)
		defer dl.Close()
	}
	for i := from; i < to; i++ {
		if time.Since(start) > budget {
			break
		}
		if pf != nil {
			_, _ = pf.WriteAt([]byte(fmt.Sprintf("%012d\n", i)), 0)
		}
		ctx.Index = i
		ctx.Seed = zsimrt.Mix(seed, name, uint64(i))
		r := zsimrt.NewRun(ctx.Seed)
		zsimrt.Activate(r)
		ctx.trace = 0
		e.run(ctx, r)
		zsimrt.Deactivate()
		if dl != nil {
			ctx.Trace(fmt.Sprintf("gen:%016x:%d", r.Digest(), r.NDraws))
			fmt.Fprintf(dl, "%d %016x\n", i, ctx.trace)
			if traceVerbose {
				for _, l := range ctx.traceLog {
					fmt.Fprintf(dl, "   %s\n", truncate(l, 300))
				}
				ctx.traceLog = nil
			}
		}
		if ctx.Stop {
			break
		}
		res.Runs++
		res.Done = i + 1
		if res.Runs%2000 == 0 {
			write()
		}
	}
	write()
}
