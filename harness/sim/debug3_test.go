package sim

import (
	"fmt"
	"os"
	"runtime"
	"strings"
	"testing"
	"time"

	"github.com/compose-spec/compose-go/v2/zsimrt"
)

// TestDebugDocs loads ad-hoc documents (debug aid): VERIF_DEBUG_DOCS=1
func TestDebugDocs(t *testing.T) {
	if os.Getenv("VERIF_DEBUG_DOCS") == "" {
		t.Skip()
	}
	docs := []string{
		"x-a: &a\n  <<: *a\nservices:\n  a:\n    image: x\n",
		"&root\n<<: *root\nservices:\n  a:\n    image: x\n",
		"x-a: &a\n  k: v\n  <<: [*a]\nservices:\n  a:\n    image: x\n",
		"x-a: &a\n  b: &b\n    <<: *a\nservices:\n  a:\n    image: x\n",
		"services:\n  a:\n    image: x\n    command: &cmd [echo, *cmd]\n",
		"!reset\nservices:\n  a:\n    image: x\n",
		"include:\n  - path: [/proj/b.yaml, /proj/compose.yaml]\nservices:\n  a:\n    image: x\n",
	}
	for i, d := range docs {
		done := make(chan *Outcome, 1)
		go func() {
			L := &Layout{Files: map[string]string{"/proj/compose.yaml": d, "/proj/b.yaml": "services:\n  b:\n    image: y\n"}, Main: []string{"/proj/compose.yaml"}, WorkingDir: "/proj", Cwd: "/proj", Env: map[string]string{}, Opts: LoadOpts{ProjectName: "p"}}
			r := zsimrt.NewRun(1)
			zsimrt.Activate(r)
			done <- RunLoad(L, Materialise(L), "", false)
		}()
		select {
		case o := <-done:
			fmt.Printf("doc %d: %s %s %s %s\n", i, o.Kind(), truncate(o.Err, 100), o.PanicAt, o.Budget)
		case <-time.After(8 * time.Second):
			buf := make([]byte, 1<<20)
			buf = buf[:runtime.Stack(buf, true)]
			s := string(buf)
			idx := strings.Index(s, "compose-go/v2/loader")
			if idx < 0 {
				idx = 0
			}
			fmt.Printf("doc %d: HANG\n%s\n", i, truncate(s[idx:], 1500))
			return
		}
	}
}
