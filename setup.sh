#!/bin/bash
# placeholder; replaced once the build pipeline exists
exit 0
