#!/bin/bash
# Builds the framework from files on disk only (offline): the simgo instrumenter,
# the Go build cache for both toolchains, and the simulators for /repo's current tree.
set -e
cd "$(dirname "$0")"
export GOFLAGS=-mod=mod GOPROXY=off GOSUMDB=off GOTOOLCHAIN=local
python3 - <<'PY'
import importlib.util, importlib.machinery, sys, os
spec = importlib.util.spec_from_loader("check", importlib.machinery.SourceFileLoader("check", os.path.join(os.getcwd(), "check")))
m = importlib.util.module_from_spec(spec); spec.loader.exec_module(m)
m.ensure_simgo()
bdir, tree = m.ensure_build(need_race=True)
print("setup: simulators built in", bdir, "for tree", tree)
bad = m.selftest(30, 4)
if bad:
    print("setup: determinism self-test FAILED for", bad); sys.exit(2)
print("setup: determinism self-test ok (all simulated engines x 4 processes x 30 runs, GOMAXPROCS 1/4/16)")
PY
