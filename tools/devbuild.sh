#!/bin/bash
# dev helper: builds the instrumented copy + harness under /tmp/scratch/dev (sim.test); used for debugging only
export GOFLAGS=-mod=mod GOPROXY=off GOSUMDB=off GOTOOLCHAIN=local GOCACHE=/verif/.cache/gocache
set -e
D=/tmp/scratch/dev; rm -rf $D; mkdir -p $D
rsync -a --exclude .git --exclude MUTANT /repo/ $D/src/
mkdir $D/src/zsimrt; cp /verif/simrt/*.go $D/src/zsimrt/
(cd $D/src && /verif/.cache/bin/simgo -dir . -sites $D/sites.json >/dev/null)
cp -r /verif/harness $D/harness
cat > $D/harness/go.mod <<EOM
module verifharness

go 1.26

require github.com/compose-spec/compose-go/v2 v2.0.0

replace github.com/compose-spec/compose-go/v2 => $D/src
EOM
cp $D/src/go.sum $D/harness/go.sum
cd $D/harness && go1.26.8 test -c -vet=off -o $D/sim.test ./sim
