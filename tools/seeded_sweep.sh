#!/bin/bash
# Regression sweep: every seeded change is applied to a fresh worktree of /repo HEAD and run through its quick check.
# Writes seeded/<id>/sweep_result.txt (exit status + violation keys). A change whose patch no longer applies to HEAD is
# reported as such (its meta.json says on which tree it was detected).
cd /verif
for d in seeded/*/; do
  id=$(basename $d); prop=$(python3 -c "import json;print(json.load(open('$d/meta.json'))['property'])")
  [ -n "${1:-}" ] && [[ "$id" != $1* ]] && continue
  r=$(./tools/trymutant.sh $d/patch.diff $prop 2>&1 | grep -v KNOWN | grep -E "exit=|key=|does not apply" | sed 's/replay_confirmed.*//' | cut -c1-260)
  echo "$r" > $d/sweep_result.txt
  echo "$id: $(echo "$r" | head -2 | tr '\n' ' ')"
done
