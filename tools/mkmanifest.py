#!/usr/bin/env python3
"""Regenerates /verif/MANIFEST.json from the tables below (run after adding a check)."""
import json, os
V = os.path.dirname(os.path.dirname(os.path.abspath(__file__)))
NA = {
"C03":"pure function of one document (short vs long syntax): no schedule, clock, fault or interleaving in it; its map ranges are exercised under C02",
"C04":"pure function of the document sequence (override rule table); deciding it needs a specification-derived merge oracle, i.e. model-based input testing, not simulation; order-dependence of the rule tables is simulated under C02",
"C06":"equivalence between two inputs; its fault/cycle clauses (missing included file/env_file, include cycles, loader failures) are exercised inside C01, its map ranges inside C02",
"C07":"template.Substitute is a pure string function",
"C08":"pure function of (document, variable map)",
"C09":"pure round-trip; the reload reads bytes from memory",
"C10":"pure predicate over the loaded model; cycle refusal reappears as a clause of C13 and as cyclic layouts of C01",
"C11":"pure function of the document",
"C12":"pure function of (document, HOME, cwd); no fault changes what the right answer is",
"C16":"precedence order over file contents; its only fault-shaped clause (missing env file / required flag) is oracle E1 of C01",
"C17":"lattice of configurations each evaluated by pure code; the simulated OS would merely host the configurations",
"C18":"pure function of the bytes; crash-freedom on torn/flipped env files is exercised by C01's content faults without being claimed",
"C20":"non-occurrence over outputs of a pure renderer; 'rendering does not modify the project' is one operation of the C14 history",
}
CHECKS = {
"C01": dict(level="fault_enumeration", tech="deterministic simulation: simulated OS (every os.* call) + fault injection (ENOENT/EACCES/EISDIR/EIO, short/torn/flipped/swapped content, TOCTOU, no HOME/cwd, loader failures) + seeded map order; totality oracle with logical step budgets",
  text="Seeded simulation of the whole loader (loader, model and cli entry points) over a simulated file system and process environment: every I/O call site of the library is made to fail in each applicable way, inside loads of generated multi-file layouts (reference cycles of every kind included) of a schema-driven type-confusion enumeration (path x node kind incl. !reset/!override tags x placement x option set x entry point, exhaustive in the thorough tier) and of structurally mutated valid documents (node kinds, deletions, renames, aliases to ancestors, self-referring merge keys); referenced files that the fault-free load never consults are found by a structural in-play rule and made absent; each run is judged by the totality oracle (value xor error, no panic, no fatal, budgets on function entries / call depth / map ranges / I/O events, faulted required file named in the error). Sampling over a large space: evidence, not proof.",
  note="Trusted: simgo rewrites are semantics preserving (repo suite passes on the instrumented copy), zsimrt.FS models the os calls the library makes (ReadFile/Open/Stat/Lstat/Getwd/UserHomeDir/Abs/EvalSymlinks/Environ), step budgets are far above any legitimate load (setup measures the fault-free maximum).", ref="3/C01"),
"C02": dict(level="exploration", tech="deterministic simulation: seeded control of all 132 map-range sites (sorted/reverse/rotation/permutation per site), load histories in one process; differential oracle across schedules",
  text="Each generated layout is loaded under several seeded iteration-order schedules of every map range in the library and after a drawn history of other loads; outcomes, projects (DeepEqual) and YAML/JSON bytes must agree. Dependence on earlier loads in the process is checked both ways: canary layouts loaded while the process is pristine and re-loaded later, and a sample of evaluations repeated in a fresh child process; one pre-parsed ConfigDetails is loaded twice. Order-dependent sites are isolated by delta-debugging the schedule. Sampling.",
  note="Trusted: simgo's R1 rewrite (checked by the repo suite on the instrumented copy); map order inside dependencies is not controlled: it affects error text (not compared) and, as found late, mapstructure's case-insensitive key matching for keys that differ only in case, which the generators do not produce (DESIGN section 6).", ref="3/C02"),
"C05": dict(level="exploration", tech="deterministic simulation: all visit orders of the services map during extends resolution pinned one by one + seeded order of every other map range + simulated disk with missing-base faults; refinement against a reference resolver",
  text="Generated extends chains (same file, other file, other directory, cycles) are loaded once per permutation of the services-map visit order; every schedule must give the same project, which must equal a small reference model of base-then-local on a fixed attribute vocabulary; missing bases and cycles must be errors.",
  note="Trusted: the 60-line reference resolver; vocabulary restricted to attributes whose merge rule is stated in the property.", ref="3/C05"),
"C13": dict(level="exploration", tech="deterministic simulation: every goroutine of the traversal parked at yield points inside a testing/synctest bubble and released one at a time by a seeded scheduler (uniform/PCT/starvation), seeded select, visitor-error and cancel injection; sequential reference model checked at every visitor event",
  text="The real InDependencyOrder/CollectInDependencyOrder run under a cooperative seeded scheduler that decides every interleaving and every visitor completion order and injects visitor errors; a sequential model checks at-most-once, dependency order, concurrency bound, wait-for-started-visits, first-error, completeness, no-modification, cycle refusal, deadlock freedom and bounded return. Sampling over schedules on DAGs of <=6 vertices.",
  note="Trusted: testing/synctest quiescence detection; simgo's R1-R3 rewrites; errgroup and context run real and un-instrumented.", ref="3/C13"),
"C14": dict(level="exploration", tech="deterministic simulation of histories: seeded derive/mutate/observe sequences over a pool of project handles with seeded map order; reference fingerprints + reflection alias walk after every step",
  text="Reflection-populated projects go through seeded histories of derivations and in-place mutations; after every step every other handle must keep its fingerprint, receiver and result must share no map/slice/pointer (Extensions payloads excepted) and fields outside the operation's footprint must be carried over.",
  note="Trusted: the reflection fingerprint/alias walker; footprints per operation are declared conservatively in the harness.", ref="3/C14"),
"C15": dict(level="exploration", tech="deterministic simulation of histories: seeded selection-operation sequences, each step re-executed under different seeded map-order schedules; set-based reference model after every step",
  text="Generated projects (<=6 services, profiles, required/optional edges, resources) go through seeded histories of profile/enable/disable/select/prune operations; a set-based model predicts enabled/disabled sets, surviving edges and resources after every step; conservation, closure and repeatability are checked.",
  note="Trusted: the set-based reference model (written from the property statement).", ref="3/C14-C15"),
"C19": dict(level="exploration", tech="deterministic simulation (seeded task scheduler over WithServicesTransform/WithImagesResolved: completion orders, error positions, deadlock detection) + seeded groups of concurrent loads on a pristine -race build (race detector as oracle) + result-equals-solo oracle",
  text="(a) the library's parallel per-service operations (and, with a shorter budget, the dependency-ordered traversal) run under the same seeded cooperative scheduler as C13 with exact-result, first-error, deadlock and all-callbacks-in-flight oracles; (b) seeded groups of 2..16 concurrent loads (loader and cli entry, optionally sharing the ConfigFiles slice), concurrent traversals of one project and real-thread runs of the parallel operations on an un-instrumented -race build, race reports keyed by the pair of compose-go frames, every result compared with the solo load, a watchdog per group.",
  note="Trusted: Go race detector has no false positives; (b) leaves goroutine interleaving to the real runtime (a cooperative scheduler would add happens-before edges and blind the detector), so (b) is probabilistic and its replay re-runs the group several times.", ref="3/C19"),
}
def build(claimed):
    checks=[]
    for pid in sorted(claimed):
        c=CHECKS[pid]
        checks.append(dict(property_id=pid, quick_cmd="./check %s --tier quick"%pid, thorough_cmd="./check %s --tier thorough"%pid,
            evidence_file="evidence/%s.json"%pid, replay_cmd_template="./check %s --replay {path}"%pid, engine="simgo+zsimrt",
            level_claimed=dict(category=c["level"], text=c["text"], design_ref="DESIGN.md section "+c["ref"]), level_note=c["note"], technique=c["tech"]))
    na=[dict(property_id=k, reason=v) for k,v in sorted(NA.items())]
    for pid in sorted(CHECKS):
        if pid not in claimed:
            na.append(dict(property_id=pid, reason="check under construction in this session (designed as claimed in DESIGN.md; not registered until it runs clean on the unchanged tree)"))
    return {"version":1,"setup_cmd":"./setup.sh",
      "hooks":{"guard":"verif","enable":"no hooks are committed in /repo: every check copies /repo's working tree to a scratch directory and instruments the copy with /verif/tools/simgo (DESIGN.md 2.1); the guard name is reserved but unused","baseline_off_cmd":"cd /repo && go test -mod=mod -vet=off -count=1 -timeout 25m ./...","source_commits":[],"add_only":True},
      "engines":[{"name":"simgo+zsimrt","path":"tools/simgo, simrt, harness, check","serves_properties":sorted(claimed),"kind_free_text":"AST instrumenter + std-only simulation runtime (choice source, map-order seam, task scheduler, simulated OS, fault plans) + per-property harness engines and reference models + Python driver"}],
      "checks":checks,"notes":"Technique family: deterministic simulation with fault injection. One integer (VERIF_SEED) decides everything; replay files under replays/<id>/. See DESIGN.md.",
      "not_applicable":sorted(na,key=lambda x:x["property_id"])}
if __name__=="__main__":
    import sys
    claimed=sys.argv[1:]
    json.dump(build(claimed), open(os.path.join(V,"MANIFEST.json"),"w"), indent=1)
    print("MANIFEST.json written, claimed:", claimed)
