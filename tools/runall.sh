#!/bin/bash
# runs every registered check (quick by default) on /repo and prints one line per check
tier=${1:-quick}
cd /verif
for p in C01 C02 C05 C13 C14 C15 C19; do
  s=$(date +%s)
  ./check $p --tier $tier > /tmp/runall-$p.out 2>&1; rc=$?
  echo "$p exit=$rc $(( $(date +%s) - s ))s violations=$(grep -c '^VIOLATION' /tmp/runall-$p.out) known=$(grep -c '^KNOWN-FINDING' /tmp/runall-$p.out)"
done
