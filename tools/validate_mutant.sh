#!/bin/bash
# usage: validate_mutant.sh <worktree> <k>  -- confirms: patch applies+builds, suite passes with it, demo fails with it and passes without.
export GOFLAGS=-mod=mod GOPROXY=off GOSUMDB=off GOTOOLCHAIN=local
wt=$1; k=$2; m=$wt/MUTANT/$k
cd $wt || exit 2
git checkout -q -- . ; git clean -fdq -e MUTANT
run_demo() {
  if [ -f $m/demo_test.go ]; then
    dir=$(grep -m1 -o 'copy to: *[a-z/]*' $m/demo_test.go | sed 's/copy to: *//; s#/$##')
    tests=$(grep -o '^func Test[A-Za-z0-9_]*' $m/demo_test.go | sed 's/func //' | paste -sd'|')
    cp $m/demo_test.go $dir/zz_demo_test.go
    race=""; grep -qi -- '-race' $m/README.md && race="-race"
    timeout 600 go test -vet=off -count=1 $race -run "^($tests)\$" ./$dir/ > /tmp/validate/out.$$ 2>&1; rc=$?
    rm -f $dir/zz_demo_test.go
    return $rc
  elif [ -d $m/demo ]; then
    timeout 600 go run ./MUTANT/$k/demo > /tmp/validate/out.$$ 2>&1; return $?
  fi
  return 99
}
mkdir -p /tmp/validate
run_demo; clean_rc=$?
git apply $m/patch.diff || { echo "$wt/$k: PATCH DOES NOT APPLY"; exit 1; }
go build ./... > /tmp/validate/build.$$ 2>&1; build_rc=$?
go test -vet=off -count=1 ./... > /tmp/validate/suite.$$ 2>&1; suite_rc=$?
run_demo; mut_rc=$?
git checkout -q -- . ; git clean -fdq -e MUTANT
echo "$wt/$k: build=$build_rc suite=$suite_rc demo_clean=$clean_rc demo_mutant=$mut_rc"
rm -f /tmp/validate/*.$$
