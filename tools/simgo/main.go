// simgo instruments a scratch copy of compose-go for deterministic simulation.
//
// Usage: simgo -dir <copy of the repository> [-mode full|none] [-sites sites.json]
//
// All rewrites are textual insertions/replacements computed from the typed AST
// and placed on the same source line as the construct they instrument, so file
// and line numbers of the instrumented copy equal those of /repo.
//
//	R1  for k, v := range <map>      -> iteration over zsimrt.Keys(site, m)
//	R2  yield points before Lock/RLock, channel send, select, receive; spawn tokens
//	    around `go` statements and errgroup.Group.Go
//	R3  receive-only select          -> seeded poll order, then the blocking select
//	R4  os.* / filepath.* selectors  -> zsimrt equivalents (simulated OS)
//	R5  (mode pkgvars) log of writes to package-level variables outside init
//	R6  zsimrt.Step() at every function entry
package main

import (
	"encoding/json"
	"flag"
	"fmt"
	"go/ast"
	"go/parser"
	"go/token"
	"go/types"
	"os"
	"path/filepath"
	"sort"
	"strings"

	"golang.org/x/tools/go/packages"
)

const rtPath = "github.com/compose-spec/compose-go/v2/zsimrt"

type edit struct {
	start, end int
	text       string
	seq        int
}

type site struct {
	ID   string `json:"id"`
	Kind string `json:"kind"`
	File string `json:"file"`
	Line int    `json:"line"`
	Note string `json:"note,omitempty"`
}

type fileCtx struct {
	path  string
	src   []byte
	edits []edit
	tf    *token.File
}

var (
	sites     []site
	siteCount = map[string]int{}
	seq       int
)

func (f *fileCtx) off(p token.Pos) int { return f.tf.Offset(p) }

func (f *fileCtx) insert(p token.Pos, text string) {
	seq++
	o := f.off(p)
	f.edits = append(f.edits, edit{o, o, text, seq})
}

func (f *fileCtx) replace(from, to token.Pos, text string) {
	seq++
	f.edits = append(f.edits, edit{f.off(from), f.off(to), text, seq})
}

func (f *fileCtx) text(from, to token.Pos) string { return string(f.src[f.off(from):f.off(to)]) }

func newSite(pkg, fn, kind string, f *fileCtx, p token.Pos, note string) string {
	key := pkg + "." + fn
	siteCount[key]++
	id := fmt.Sprintf("%s#%d", key, siteCount[key])
	pos := f.tf.Position(p)
	rel := pos.Filename
	sites = append(sites, site{ID: id, Kind: kind, File: rel, Line: pos.Line, Note: note})
	return id
}

func main() {
	dir := flag.String("dir", "", "root of the scratch copy")
	sitesOut := flag.String("sites", "", "where to write sites.json")
	pkgvars := flag.Bool("pkgvars", false, "also log accesses to package-level variables (R5)")
	flag.Parse()
	if *dir == "" {
		fmt.Fprintln(os.Stderr, "simgo: -dir required")
		os.Exit(2)
	}
	abs, _ := filepath.Abs(*dir)
	cfg := &packages.Config{
		Mode: packages.NeedName | packages.NeedFiles | packages.NeedCompiledGoFiles | packages.NeedSyntax |
			packages.NeedTypes | packages.NeedTypesInfo | packages.NeedImports,
		Dir:   abs,
		Tests: false,
		Env:   os.Environ(),
	}
	pkgs, err := packages.Load(cfg, "./...")
	if err != nil {
		fmt.Fprintln(os.Stderr, "simgo: load:", err)
		os.Exit(2)
	}
	bad := false
	for _, p := range pkgs {
		for _, e := range p.Errors {
			fmt.Fprintln(os.Stderr, "simgo:", e)
			bad = true
		}
	}
	if bad {
		os.Exit(2)
	}
	sort.Slice(pkgs, func(i, j int) bool { return pkgs[i].PkgPath < pkgs[j].PkgPath })
	nfiles := 0
	for _, p := range pkgs {
		if strings.HasSuffix(p.PkgPath, "/zsimrt") || strings.Contains(p.PkgPath, "/cmd") {
			continue
		}
		short := strings.TrimPrefix(p.PkgPath, "github.com/compose-spec/compose-go/v2/")
		if short == p.PkgPath {
			short = "root"
		}
		for i, file := range p.Syntax {
			path := p.CompiledGoFiles[i]
			if !strings.HasPrefix(path, abs) || strings.HasSuffix(path, "_test.go") {
				continue
			}
			src, err := os.ReadFile(path)
			if err != nil {
				fmt.Fprintln(os.Stderr, "simgo:", err)
				os.Exit(2)
			}
			fc := &fileCtx{path: path, src: src, tf: p.Fset.File(file.Pos())}
			instrumentTyped(p, short, file, fc, strings.TrimPrefix(path, abs+"/"), *pkgvars)
			out, err := apply(fc)
			if err != nil {
				fmt.Fprintf(os.Stderr, "simgo: %s: %v\n", path, err)
				os.Exit(2)
			}
			out, err = rewriteOS(path, out)
			if err != nil {
				fmt.Fprintf(os.Stderr, "simgo: %s: %v\n", path, err)
				os.Exit(2)
			}
			if err := os.WriteFile(path, out, 0o644); err != nil {
				fmt.Fprintln(os.Stderr, "simgo:", err)
				os.Exit(2)
			}
			nfiles++
		}
	}
	for i := range sites {
		sites[i].File = strings.TrimPrefix(sites[i].File, abs+"/")
	}
	if *sitesOut != "" {
		b, _ := json.MarshalIndent(sites, "", " ")
		if err := os.WriteFile(*sitesOut, b, 0o644); err != nil {
			fmt.Fprintln(os.Stderr, "simgo:", err)
			os.Exit(2)
		}
	}
	counts := map[string]int{}
	for _, s := range sites {
		counts[s.Kind]++
	}
	fmt.Printf("simgo: %d files, sites: %v\n", nfiles, counts)
}

// apply performs the edits (which must not overlap) on the source.
func apply(f *fileCtx) ([]byte, error) {
	sort.SliceStable(f.edits, func(i, j int) bool {
		a, b := f.edits[i], f.edits[j]
		if a.start != b.start {
			return a.start < b.start
		}
		// insertions at the same offset keep their creation order; an insertion
		// at the start of a replaced span goes first
		if (a.end == a.start) != (b.end == b.start) {
			return a.end == a.start
		}
		return a.seq < b.seq
	})
	var out []byte
	cur := 0
	for _, e := range f.edits {
		if e.start < cur {
			return nil, fmt.Errorf("overlapping edits at offset %d (%q)", e.start, e.text)
		}
		out = append(out, f.src[cur:e.start]...)
		out = append(out, e.text...)
		cur = e.end
	}
	out = append(out, f.src[cur:]...)
	return out, nil
}

func isMapCore(t types.Type) bool {
	if t == nil {
		return false
	}
	switch u := t.Underlying().(type) {
	case *types.Map:
		return true
	case *types.Interface:
		// type parameter: look for a single map core type
		if tp, ok := t.(*types.TypeParam); ok {
			_ = tp
			var core types.Type
			okAll := true
			iface := u
			for i := 0; i < iface.NumEmbeddeds(); i++ {
				et := iface.EmbeddedType(i)
				if un, ok := et.(*types.Union); ok {
					for j := 0; j < un.Len(); j++ {
						tt := un.Term(j).Type().Underlying()
						if _, ok := tt.(*types.Map); !ok {
							okAll = false
						} else if core == nil {
							core = tt
						}
					}
				} else if _, ok := et.Underlying().(*types.Map); ok {
					core = et.Underlying()
				} else {
					okAll = false
				}
			}
			return okAll && core != nil
		}
	}
	return false
}

func isChan(t types.Type) bool {
	if t == nil {
		return false
	}
	_, ok := t.Underlying().(*types.Chan)
	return ok
}

// enclosing function name tracking
type walker struct {
	p       *packages.Package
	short   string
	f       *fileCtx
	rel     string
	fn      []string
	parents []ast.Node
	pkgvars bool
	inInit  bool
}

func (w *walker) curFn() string {
	if len(w.fn) == 0 {
		return "_"
	}
	return w.fn[len(w.fn)-1]
}

func (w *walker) parent(n int) ast.Node {
	if len(w.parents) < n+1 {
		return nil
	}
	return w.parents[len(w.parents)-1-n]
}

// inStmtList reports whether stmt (whose parent chain is w.parents, stmt being
// the node currently visited) sits directly in a statement list, returning the
// position at which a statement may be inserted in front of it (before a label
// if it carries one).
func (w *walker) stmtInsertPos(stmt ast.Stmt) (token.Pos, bool) {
	par := w.parent(0)
	pos := stmt.Pos()
	if ls, ok := par.(*ast.LabeledStmt); ok {
		pos = ls.Pos()
		par = w.parent(1)
	}
	switch par.(type) {
	case *ast.BlockStmt, *ast.CaseClause, *ast.CommClause:
		return pos, true
	}
	return pos, false
}

func instrumentTyped(p *packages.Package, short string, file *ast.File, f *fileCtx, rel string, pkgvars bool) {
	w := &walker{p: p, short: short, f: f, rel: rel, pkgvars: pkgvars}
	// import of the runtime, on the package clause line
	f.insert(file.Name.End(), "; import zsimrt \""+rtPath+"\"")
	f.insert(file.End(), "\nvar _ = zsimrt.Step\n")
	w.walk(file)
}

func recvName(fd *ast.FuncDecl) string {
	if fd.Recv == nil || len(fd.Recv.List) == 0 {
		return fd.Name.Name
	}
	t := fd.Recv.List[0].Type
	for {
		switch x := t.(type) {
		case *ast.StarExpr:
			t = x.X
			continue
		case *ast.IndexExpr:
			t = x.X
			continue
		case *ast.IndexListExpr:
			t = x.X
			continue
		case *ast.ParenExpr:
			t = x.X
			continue
		}
		break
	}
	if id, ok := t.(*ast.Ident); ok {
		return id.Name + "." + fd.Name.Name
	}
	return fd.Name.Name
}

func (w *walker) walk(n ast.Node) {
	if n == nil {
		return
	}
	pushedFn := false
	switch x := n.(type) {
	case *ast.FuncDecl:
		w.fn = append(w.fn, recvName(x))
		pushedFn = true
		if x.Body != nil {
			w.f.insert(x.Body.Lbrace+1, " zsimrt.Step(); defer zsimrt.Leave();")
		}
		if x.Name.Name == "init" && x.Recv == nil {
			w.inInit = true
			defer func() { w.inInit = false }()
		}
	case *ast.FuncLit:
		// no Step in literals: they may sit inside replaced spans; their callees count
	case *ast.RangeStmt:
		w.rangeStmt(x)
	case *ast.SendStmt:
		if pos, ok := w.stmtInsertPos(x); ok {
			id := newSite(w.short, w.curFn(), "yield-send", w.f, x.Pos(), "")
			w.f.insert(pos, fmt.Sprintf("zsimrt.Yield(%q); ", id))
		} else {
			newSite(w.short, w.curFn(), "uncontrolled", w.f, x.Pos(), "send not in statement list")
		}
	case *ast.SelectStmt:
		w.selectStmt(x)
	case *ast.GoStmt:
		w.goStmt(x)
	case *ast.ExprStmt:
		if call, ok := x.X.(*ast.CallExpr); ok {
			w.callStmt(x, call)
		}
		if ue, ok := x.X.(*ast.UnaryExpr); ok && ue.Op == token.ARROW {
			w.recvStmt(x)
		}
	case *ast.AssignStmt:
		if len(x.Rhs) == 1 {
			if ue, ok := x.Rhs[0].(*ast.UnaryExpr); ok && ue.Op == token.ARROW {
				// only plain receives outside select comm clauses
				if _, inComm := w.parent(0).(*ast.CommClause); !inComm || !isCommHeader(w.parent(0).(*ast.CommClause), x) {
					w.recvStmt(x)
				}
			}
		}
		if w.pkgvars && !w.inInit {
			w.pkgVarWrite(x)
		}
	}
	w.parents = append(w.parents, n)
	ast.Inspect(n, func(c ast.Node) bool {
		if c == nil || c == n {
			return c == n
		}
		w.walk(c)
		return false
	})
	w.parents = w.parents[:len(w.parents)-1]
	if pushedFn {
		w.fn = w.fn[:len(w.fn)-1]
	}
}

func isCommHeader(cc *ast.CommClause, s ast.Stmt) bool { return cc.Comm == s }

func (w *walker) recvStmt(s ast.Stmt) {
	if cc, ok := w.parent(0).(*ast.CommClause); ok && cc.Comm == s {
		return
	}
	if pos, ok := w.stmtInsertPos(s); ok {
		id := newSite(w.short, w.curFn(), "yield-recv", w.f, s.Pos(), "")
		w.f.insert(pos, fmt.Sprintf("zsimrt.Yield(%q); ", id))
		w.f.insert(s.End(), fmt.Sprintf("; zsimrt.Yield(%q)", id+"/woke"))
	}
}

// R1
func (w *walker) rangeStmt(x *ast.RangeStmt) {
	t := w.p.TypesInfo.TypeOf(x.X)
	if isChan(t) {
		// `for v := range ch`: yield at the top of each iteration
		id := newSite(w.short, w.curFn(), "yield-recv", w.f, x.Pos(), "range over channel")
		w.f.insert(x.Body.Lbrace+1, fmt.Sprintf(" zsimrt.Yield(%q);", id+"/woke"))
		return
	}
	if !isMapCore(t) {
		return
	}
	id := newSite(w.short, w.curFn(), "maprange", w.f, x.Pos(), "")
	n := len(sites)
	m := fmt.Sprintf("simM%d", n)
	ks := fmt.Sprintf("simKs%d", n)
	i := fmt.Sprintf("simI%d", n)
	kv := fmt.Sprintf("simK%d", n)
	vv := fmt.Sprintf("simV%d", n)
	okv := fmt.Sprintf("simOk%d", n)
	start := x.Pos()
	label := ""
	if ls, ok := w.parent(0).(*ast.LabeledStmt); ok && ls.Stmt == x {
		start = ls.Pos()
		label = ls.Label.Name + ": "
	}
	isBlank := func(e ast.Expr) bool {
		if e == nil {
			return true
		}
		id, ok := e.(*ast.Ident)
		return ok && id.Name == "_"
	}
	hasK, hasV := !isBlank(x.Key), !isBlank(x.Value)
	var b strings.Builder
	fmt.Fprintf(&b, "{ %s := %s; %s := zsimrt.Keys(%q, %s); ", m, w.f.text(x.X.Pos(), x.X.End()), ks, id, m)
	var perIter strings.Builder
	fmt.Fprintf(&perIter, " %s := %s[%s]; %s, %s := %s[%s]; if !%s { continue }; _ = %s;", kv, ks, i, vv, okv, m, kv, okv, vv)
	if x.Tok == token.DEFINE {
		if hasK {
			k := w.f.text(x.Key.Pos(), x.Key.End())
			fmt.Fprintf(&b, "%s := zsimrt.ZeroK(%s); _ = %s; ", k, m, k)
			fmt.Fprintf(&perIter, " %s = %s;", k, kv)
		}
		if hasV {
			v := w.f.text(x.Value.Pos(), x.Value.End())
			fmt.Fprintf(&b, "%s := zsimrt.ZeroV(%s); _ = %s; ", v, m, v)
			fmt.Fprintf(&perIter, " %s = %s;", v, vv)
		}
	} else {
		if hasK {
			fmt.Fprintf(&perIter, " %s = %s;", w.f.text(x.Key.Pos(), x.Key.End()), kv)
		}
		if hasV {
			fmt.Fprintf(&perIter, " %s = %s;", w.f.text(x.Value.Pos(), x.Value.End()), vv)
		}
	}
	fmt.Fprintf(&b, "%sfor %s := 0; %s < len(%s); %s++ {%s", label, i, i, ks, i, perIter.String())
	w.f.replace(start, x.Body.Lbrace+1, b.String())
	w.f.insert(x.Body.Rbrace+1, " }")
}

func (w *walker) isSyncLock(call *ast.CallExpr) bool {
	sel, ok := call.Fun.(*ast.SelectorExpr)
	if !ok {
		return false
	}
	if sel.Sel.Name != "Lock" && sel.Sel.Name != "RLock" {
		return false
	}
	obj := w.p.TypesInfo.Uses[sel.Sel]
	fn, ok := obj.(*types.Func)
	if !ok || fn.Pkg() == nil {
		return false
	}
	return fn.Pkg().Path() == "sync"
}

func (w *walker) isErrgroupGo(call *ast.CallExpr) bool {
	sel, ok := call.Fun.(*ast.SelectorExpr)
	if !ok {
		return false
	}
	if sel.Sel.Name != "Go" && sel.Sel.Name != "TryGo" {
		return false
	}
	obj := w.p.TypesInfo.Uses[sel.Sel]
	fn, ok := obj.(*types.Func)
	if !ok || fn.Pkg() == nil {
		return false
	}
	return strings.HasSuffix(fn.Pkg().Path(), "sync/errgroup")
}

func (w *walker) callStmt(s *ast.ExprStmt, call *ast.CallExpr) {
	if w.isSyncLock(call) {
		if pos, ok := w.stmtInsertPos(s); ok {
			id := newSite(w.short, w.curFn(), "yield-lock", w.f, s.Pos(), "")
			w.f.insert(pos, fmt.Sprintf("zsimrt.Yield(%q); ", id))
		} else {
			newSite(w.short, w.curFn(), "uncontrolled", w.f, s.Pos(), "lock not in statement list")
		}
		return
	}
	if w.isErrgroupGo(call) && len(call.Args) == 1 {
		pos, ok := w.stmtInsertPos(s)
		lit, isLit := call.Args[0].(*ast.FuncLit)
		if !ok || !isLit {
			newSite(w.short, w.curFn(), "uncontrolled", w.f, s.Pos(), "errgroup.Go without literal / not in statement list")
			return
		}
		id := newSite(w.short, w.curFn(), "spawn", w.f, s.Pos(), "errgroup.Go")
		tok := fmt.Sprintf("simTok%d", len(sites))
		w.f.insert(pos, fmt.Sprintf("%s := zsimrt.Spawn(%q); ", tok, id))
		w.f.insert(lit.Body.Lbrace+1, fmt.Sprintf(" zsimrt.Start(%s); defer zsimrt.Exit();", tok))
	}
}

func (w *walker) goStmt(x *ast.GoStmt) {
	pos, ok := w.stmtInsertPos(x)
	lit, isLit := x.Call.Fun.(*ast.FuncLit)
	if !ok {
		newSite(w.short, w.curFn(), "uncontrolled", w.f, x.Pos(), "go statement not in statement list")
		return
	}
	id := newSite(w.short, w.curFn(), "spawn", w.f, x.Pos(), "go")
	tok := fmt.Sprintf("simTok%d", len(sites))
	if isLit {
		w.f.insert(pos, fmt.Sprintf("%s := zsimrt.Spawn(%q); ", tok, id))
		w.f.insert(lit.Body.Lbrace+1, fmt.Sprintf(" zsimrt.Start(%s); defer zsimrt.Exit();", tok))
		return
	}
	// go f(a, b)  ->  evaluate f and the arguments now, run them in a wrapped literal
	var pre strings.Builder
	fmt.Fprintf(&pre, "%s := zsimrt.Spawn(%q); ", tok, id)
	fn := fmt.Sprintf("simF%d", len(sites))
	fmt.Fprintf(&pre, "%s := %s; ", fn, w.f.text(x.Call.Fun.Pos(), x.Call.Fun.End()))
	var args []string
	for i, a := range x.Call.Args {
		an := fmt.Sprintf("simA%d_%d", len(sites), i)
		fmt.Fprintf(&pre, "%s := %s; ", an, w.f.text(a.Pos(), a.End()))
		args = append(args, an)
	}
	ell := ""
	if x.Call.Ellipsis.IsValid() {
		ell = "..."
	}
	w.f.replace(x.Pos(), x.End(), fmt.Sprintf("%sgo func() { zsimrt.Start(%s); defer zsimrt.Exit(); %s(%s%s) }()", pre.String(), tok, fn, strings.Join(args, ", "), ell))
	if pos != x.Pos() {
		// labelled go statement: cannot hoist; leave it (never seen)
	}
}

// R3
func (w *walker) selectStmt(x *ast.SelectStmt) {
	pos, ok := w.stmtInsertPos(x)
	if !ok {
		newSite(w.short, w.curFn(), "uncontrolled", w.f, x.Pos(), "select not in statement list")
		return
	}
	recvOnly := true
	hasDefault := -1
	for i, c := range x.Body.List {
		cc := c.(*ast.CommClause)
		switch s := cc.Comm.(type) {
		case nil:
			hasDefault = i
		case *ast.ExprStmt:
			if ue, ok := s.X.(*ast.UnaryExpr); !ok || ue.Op != token.ARROW {
				recvOnly = false
			}
		case *ast.AssignStmt:
			if len(s.Rhs) != 1 {
				recvOnly = false
			} else if ue, ok := s.Rhs[0].(*ast.UnaryExpr); !ok || ue.Op != token.ARROW {
				recvOnly = false
			}
		default:
			recvOnly = false
		}
	}
	if _, labelled := w.parent(0).(*ast.LabeledStmt); labelled {
		recvOnly = false
	}
	if !recvOnly || len(x.Body.List) == 0 {
		id := newSite(w.short, w.curFn(), "uncontrolled", w.f, x.Pos(), "select with send case / label: plain yield only")
		w.f.insert(pos, fmt.Sprintf("zsimrt.Yield(%q); ", id))
		return
	}
	id := newSite(w.short, w.curFn(), "select", w.f, x.Pos(), "")
	n := len(sites)
	nc := len(x.Body.List)
	var pre, blocking strings.Builder
	fmt.Fprintf(&pre, "{ zsimrt.Yield(%q); simIdx%d := -1; ", id, n)
	fmt.Fprintf(&blocking, "select { ")
	var polls strings.Builder
	for i, c := range x.Body.List {
		cc := c.(*ast.CommClause)
		if cc.Comm == nil {
			continue
		}
		var recv *ast.UnaryExpr
		switch s := cc.Comm.(type) {
		case *ast.ExprStmt:
			recv = s.X.(*ast.UnaryExpr)
		case *ast.AssignStmt:
			recv = s.Rhs[0].(*ast.UnaryExpr)
		}
		ch := fmt.Sprintf("simC%d_%d", n, i)
		v := fmt.Sprintf("simV%d_%d", n, i)
		okn := fmt.Sprintf("simOk%d_%d", n, i)
		fmt.Fprintf(&pre, "%s := %s; %s, %s := zsimrt.RecvZero(%s); _, _ = %s, %s; ", ch, w.f.text(recv.X.Pos(), recv.X.End()), v, okn, ch, v, okn)
		fmt.Fprintf(&polls, "case %d: var simG bool; %s, %s, simG = zsimrt.TryRecv(%s); if simG { simIdx%d = %d }; ", i, v, okn, ch, n, i)
		fmt.Fprintf(&blocking, "case %s, %s = <-%s: simIdx%d = %d; ", v, okn, ch, n, i)
		// clause header
		var hdr strings.Builder
		fmt.Fprintf(&hdr, "case %d:", i)
		if as, ok := cc.Comm.(*ast.AssignStmt); ok {
			op := ":="
			if as.Tok == token.ASSIGN {
				op = "="
			}
			lhs0 := w.f.text(as.Lhs[0].Pos(), as.Lhs[0].End())
			if len(as.Lhs) == 2 {
				lhs1 := w.f.text(as.Lhs[1].Pos(), as.Lhs[1].End())
				fmt.Fprintf(&hdr, " %s, %s %s %s, %s;", lhs0, lhs1, op, v, okn)
			} else {
				fmt.Fprintf(&hdr, " %s %s %s;", lhs0, op, v)
			}
		}
		w.f.replace(cc.Pos(), cc.Colon+1, hdr.String())
	}
	if hasDefault >= 0 {
		cc := x.Body.List[hasDefault].(*ast.CommClause)
		w.f.replace(cc.Pos(), cc.Colon+1, fmt.Sprintf("case %d:", hasDefault))
		fmt.Fprintf(&blocking, "default: simIdx%d = %d; ", n, hasDefault)
	}
	fmt.Fprintf(&blocking, "}")
	fmt.Fprintf(&pre, "for _, simP := range zsimrt.SelectOrder(%q, %d) { switch simP { %s}; if simIdx%d >= 0 { break } }; ", id, nc, polls.String(), n)
	fmt.Fprintf(&pre, "if simIdx%d < 0 { %s; zsimrt.Yield(%q) }; switch simIdx%d {", n, blocking.String(), id+"/woke", n)
	w.f.replace(pos, x.Body.Lbrace+1, pre.String())
	w.f.insert(x.Body.Rbrace+1, " }")
}

// R5: package-level variable writes (assignment whose LHS is rooted at a package-level var)
func (w *walker) pkgVarWrite(x *ast.AssignStmt) {
	pos, ok := w.stmtInsertPos(x)
	if !ok || len(w.fn) == 0 {
		return
	}
	for _, l := range x.Lhs {
		root := l
		for {
			switch e := root.(type) {
			case *ast.IndexExpr:
				root = e.X
				continue
			case *ast.SelectorExpr:
				if _, isPkg := w.p.TypesInfo.Uses[identOf(e.X)].(*types.PkgName); isPkg {
					root = e.Sel
					break
				}
				root = e.X
				continue
			case *ast.StarExpr:
				root = e.X
				continue
			case *ast.ParenExpr:
				root = e.X
				continue
			}
			break
		}
		id, ok := root.(*ast.Ident)
		if !ok {
			continue
		}
		v, ok := w.p.TypesInfo.Uses[id].(*types.Var)
		if !ok || v.Pkg() == nil || v.Parent() != v.Pkg().Scope() {
			continue
		}
		sid := newSite(w.short, w.curFn(), "pkgvar-write", w.f, x.Pos(), v.Pkg().Name()+"."+v.Name())
		w.f.insert(pos, fmt.Sprintf("zsimrt.PkgVar(%q, %q, true); ", sid, v.Pkg().Name()+"."+v.Name()))
	}
}

func identOf(e ast.Expr) *ast.Ident {
	id, _ := e.(*ast.Ident)
	return id
}

// R4: second, purely syntactic pass over the already edited text.
var osFuncs = map[string]bool{"ReadFile": true, "Open": true, "Stat": true, "Lstat": true, "Getwd": true,
	"UserHomeDir": true, "Environ": true, "LookupEnv": true, "Getenv": true, "Setenv": true, "Stdin": true}
var fpFuncs = map[string]string{"Abs": "Abs", "EvalSymlinks": "EvalSymlinks"}

func rewriteOS(path string, src []byte) ([]byte, error) {
	fset := token.NewFileSet()
	file, err := parser.ParseFile(fset, path, src, parser.ParseComments)
	if err != nil {
		return nil, fmt.Errorf("re-parse after instrumentation: %w", err)
	}
	osName, fpName := "", ""
	for _, im := range file.Imports {
		p := strings.Trim(im.Path.Value, "\"")
		name := filepath.Base(p)
		if im.Name != nil {
			name = im.Name.Name
		}
		switch p {
		case "os":
			osName = name
		case "path/filepath":
			fpName = name
		}
	}
	if osName == "" && fpName == "" {
		return src, nil
	}
	fc := &fileCtx{path: path, src: src, tf: fset.File(file.Pos())}
	usedOS, usedFP := false, false
	ast.Inspect(file, func(n ast.Node) bool {
		sel, ok := n.(*ast.SelectorExpr)
		if !ok {
			return true
		}
		id, ok := sel.X.(*ast.Ident)
		if !ok || id.Obj != nil { // Obj != nil: a local object shadows the package name
			return true
		}
		if osName != "" && id.Name == osName && osFuncs[sel.Sel.Name] {
			pos := fset.Position(sel.Pos())
			sites = append(sites, site{ID: fmt.Sprintf("%s:%d", pos.Filename, pos.Line), Kind: "os", File: pos.Filename, Line: pos.Line, Note: "os." + sel.Sel.Name})
			fc.replace(sel.Pos(), sel.End(), "zsimrt."+sel.Sel.Name)
			usedOS = true
		}
		if fpName != "" && id.Name == fpName && fpFuncs[sel.Sel.Name] != "" {
			pos := fset.Position(sel.Pos())
			sites = append(sites, site{ID: fmt.Sprintf("%s:%d", pos.Filename, pos.Line), Kind: "os", File: pos.Filename, Line: pos.Line, Note: "filepath." + sel.Sel.Name})
			fc.replace(sel.Pos(), sel.End(), "zsimrt."+fpFuncs[sel.Sel.Name])
			usedFP = true
		}
		return true
	})
	if !usedOS && !usedFP {
		return src, nil
	}
	out, err := apply(fc)
	if err != nil {
		return nil, err
	}
	// keep the imports used
	tail := "\n"
	if usedOS {
		tail += "var _ = " + osName + ".Args\n"
	}
	if usedFP {
		tail += "var _ = " + fpName + ".Separator\n"
	}
	return append(out, tail...), nil
}
