#!/bin/bash
# usage: wave.sh <out-file> <wt-id>...   validates and runs the owning quick check for MUTANT/1..3 of each worktree
out=$1; shift
for w in "$@"; do
  p=${w:0:3}
  for k in 1 2 3; do
    [ -d /tmp/wt/$w/MUTANT/$k ] || continue
    v=$(/verif/tools/validate_mutant.sh /tmp/wt/$w $k 2>&1 | tail -1)
    d=$(/verif/tools/trymutant.sh /tmp/wt/$w/MUTANT/$k/patch.diff $p 2>&1 | grep -v KNOWN | tr '\n' ' ' | cut -c1-600)
    echo "$w/$k | $v | $d" >> $out
  done
done
