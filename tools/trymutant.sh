#!/bin/bash
# usage: trymutant.sh <patch.diff> <property> [extra check args]
# Applies the patch to a fresh scratch worktree of /repo's HEAD (never to /repo itself), runs the check against it
# (VERIF_REPO), prints the verdict lines, removes the worktree.
set -u
patch=$(readlink -f "$1"); prop=$2; shift 2
wt=$(mktemp -d /tmp/mt-XXXXXX); rmdir $wt
git -C /repo worktree add -q --detach $wt HEAD || exit 2
cd $wt
# a ported patch (same change re-expressed on HEAD after a later fix rewrote the lines) takes precedence
[ -f "$(dirname "$patch")/ported_to_head.diff" ] && patch="$(dirname "$patch")/ported_to_head.diff"
git apply "$patch" 2>/dev/null || { git checkout -q -- . ; patch -p1 -F3 -s < "$patch" ; } || { echo "patch does not apply"; cd /; git -C /repo worktree remove --force $wt; exit 2; }
out=$(mktemp /tmp/trymutant-XXXXXX.out)
cd /verif && VERIF_REPO=$wt ./check "$prop" --no-evidence "$@" > $out 2>&1
rc=$?
git -C /repo worktree remove --force $wt
echo "exit=$rc"; grep -E "^VIOLATION|clause=|KNOWN-FINDING|infrastructure" $out | cut -c1-300 | head -12
rm -f $out
