#!/bin/bash
# usage: trymutant.sh <patch.diff> <property> [extra check args]  -- applies the patch to /repo, runs the quick check, reverts.
set -u
patch=$1; prop=$2; shift 2
cd /repo || exit 2
if ! git diff --quiet; then echo "repo dirty"; exit 2; fi
git apply "$patch" 2>/dev/null || git apply -3 "$patch" 2>/dev/null || patch -p1 -F3 -s < "$patch" || { echo "patch does not apply"; git checkout -- . ; exit 2; }
git reset -q
cd /verif && ./check "$prop" --no-evidence "$@" > /tmp/trymutant.out 2>&1
rc=$?
git -C /repo checkout -- . ; git -C /repo clean -fdq
echo "exit=$rc"; grep -E "^VIOLATION|clause=|KNOWN-FINDING|infrastructure" /tmp/trymutant.out | cut -c1-260 | head -12
